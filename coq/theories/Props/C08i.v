(* C08 at instruction level — the CODE.* wrappers against the depth-first point specification.
   Statements only. *)
From Coq Require Import ZArith String List Bool.
From PushModel Require Import Base.Sx Base.Machine Base.F32 Model.Item Model.GraphT Model.State
  Model.InstrBase Model.ICode Spec.TreeSpec Proofs.CodeInstr.
Import ListNotations.
Open Scope Z_scope.

Theorem C08i_code_size_counts_points : forall s t r, st_code s = t :: r ->
  code_size s = Ok (push_int s (wrap32 (Z.of_nat (length (points t))))).
Proof. exact code_size_spec. Qed.
Print Assumptions C08i_code_size_counts_points.

(* EXTRACT at ANY i32 index yields point (index mod size) in depth-first order *)
Theorem C08i_code_extract_normalises : forall p s idx ir t r,
  st_int s = idx :: ir -> st_code s = t :: r -> size t <= max32 ->
  code_extract p s = Ok (push_code (set_int s ir) (nth_point t (idx mod size t))).
Proof. exact code_extract_normalises. Qed.
Print Assumptions C08i_code_extract_normalises.

(* INSERT at 0 < i < size replaces exactly point i (so a following EXTRACT at i yields the inserted
   item: C08_extract_after_insert; nothing outside the replaced subtree changes: C08_insert_local) *)
Theorem C08i_code_insert_replaces_point : forall p s idx ir t x r,
  st_int s = idx :: ir -> st_code s = t :: x :: r -> 0 < idx < size t ->
  code_insert p s = Ok (set_code (set_int s ir) (replace_point t idx x :: x :: r)).
Proof. exact code_insert_spec. Qed.
Print Assumptions C08i_code_insert_replaces_point.

(* KNOWN FINDING (doc/code disagreement pinned by unit test code_insert_does_nothing_when_index_too_big):
   the index is not normalised "as in EXTRACT" and the root (index 0) is never replaced *)
Theorem C08i_code_insert_outside_is_noop : forall p s idx ir t x r,
  st_int s = idx :: ir -> st_code s = t :: x :: r -> (idx <= 0 \/ size t <= idx) ->
  size t < two64 - two32 -> min32 <= idx ->
  code_insert p s = Ok (set_code (set_int s ir) (t :: x :: r)).
Proof. exact code_insert_outside_noop. Qed.
Print Assumptions C08i_code_insert_outside_is_noop.

Theorem C08i_code_position_first_index : forall (FO : FloatOps) s b a r, st_code s = b :: a :: r ->
  code_position s = Ok (push_int s (match first_index a b with Some k => wrap32 k | None => -1 end)).
Proof. exact @code_position_spec. Qed.
Print Assumptions C08i_code_position_first_index.

Theorem C08i_code_container_smallest_enclosing : forall (FO : FloatOps) s b a r, st_code s = b :: a :: r ->
  code_container s = Ok (push_code s (match container_of b a with COk c => c | CErr _ => IList [] end)).
Proof. exact @code_container_spec. Qed.
Print Assumptions C08i_code_container_smallest_enclosing.

Theorem C08i_code_subst_all_and_only : forall (FO : FloatOps) s target sub pat r,
  st_code s = target :: sub :: pat :: r ->
  code_subst s = Ok (set_code s ((if equals target pat then sub else subst_all target pat sub) :: r)).
Proof. exact @code_subst_spec. Qed.
Print Assumptions C08i_code_subst_all_and_only.

Theorem C08i_discrepancy_symmetric : forall (FO : FloatOps) a b, discrepancy a b = discrepancy b a.
Proof. exact @discrepancy_symmetric. Qed.
Print Assumptions C08i_discrepancy_symmetric.

Theorem C08i_discrepancy_zero_on_identical : forall (FO : FloatOps) a, discrepancy a a = 0.
Proof. exact @discrepancy_zero_on_equal. Qed.
Print Assumptions C08i_discrepancy_zero_on_identical.

(* C07 — names: definition, lookup and quoting behave as documented for every type.  Statements only. *)
From Coq Require Import ZArith String List Bool.
From PushModel Require Import Base.Sx Base.Machine Base.F32 Model.Item Model.GraphT Model.State
  Model.InstrBase Model.ICode Model.Registry Model.Interp Model.RegistryAll Proofs.NameProofs.
Import ListNotations.
Open Scope Z_scope.

Theorem C07_unbound_name_to_name_stack : forall (FO : FloatOps) p w s n r,
  st_exec s = IName n :: r -> st_quote s = false -> bind_get (st_bind s) n = None ->
  step p full_registry w s = Ok (false, w, set_name (set_exec s r) (n :: st_name s)).
Proof. exact @unbound_name_to_name_stack. Qed.
Print Assumptions C07_unbound_name_to_name_stack.

(* T.DEFINE (generic over the stack type: BOOLEAN, INTEGER, FLOAT, CODE, EXEC and the three vector
   types are all [g_define] at their lens, see C05_uniform / the registry tables) binds the name to
   the top item and leaves every other binding alone *)
Theorem C07_define_binds : forall (FO : FloatOps) (A : Type) (get : state -> list A) (set : state -> list A -> state)
    (mk : A -> item), (forall s l, get (set_name s l) = get s) ->
  forall s n nr v vr, st_name s = n :: nr -> get s = v :: vr ->
  exists s', g_define get set mk s = Ok s' /\ bind_get (st_bind s') n = Some (mk v) /\
             (forall m, m <> n -> bind_get (st_bind s') m = bind_get (st_bind s) m).
Proof. intros FO A get set mk H. exact (define_binds get set mk H). Qed.
Print Assumptions C07_define_binds.

(* every later encounter of a bound name puts the bound item on EXEC (a code item is thereby
   executed), and a literal returns to its own stack in the following step *)
Theorem C07_bound_name_pushes_value : forall (FO : FloatOps) p w s n r t,
  st_exec s = IName n :: r -> st_quote s = false -> bind_get (st_bind s) n = Some t ->
  step p full_registry w s = Ok (false, w, set_exec s (t :: r)).
Proof. exact @bound_name_pushes_value. Qed.
Print Assumptions C07_bound_name_pushes_value.

Theorem C07_literal_goes_home : forall (FO : FloatOps) p w s v r,
  st_exec s = ILit v :: r -> step p full_registry w s = Ok (false, w, push_lit (set_exec s r) v).
Proof. exact @literal_goes_home. Qed.
Print Assumptions C07_literal_goes_home.

(* a later definition replaces an earlier one; over arbitrary histories of definitions the table
   is a finite map with last-writer-wins *)
Theorem C07_redefine_replaces : forall b n v1 v2, bind_get (bind_set (bind_set b n v1) n v2) n = Some v2.
Proof. intros. apply bind_get_set_same. Qed.
Print Assumptions C07_redefine_replaces.

Theorem C07_bindings_refine_map : forall ops b m,
  bind_get (fold_left (fun b e => bind_set b (fst e) (snd e)) ops b) m = map_after ops (bind_get b) m.
Proof. exact bindings_refine_map. Qed.
Print Assumptions C07_bindings_refine_map.

(* NAME.QUOTE: the flag survives any non-identifier step, the next identifier goes to NAME even if
   bound, the flag is then clear and the table unchanged *)
Theorem C07_quote_flag_survives : forall p reg, reg_quote_kept reg ->
  forall w s t r fin w1 s1, st_exec s = t :: r -> (forall n, t <> IName n) -> st_quote s = true ->
  step p reg w s = Ok (fin, w1, s1) -> st_quote s1 = true /\ ((forall n, t <> IInstr n) -> st_bind s1 = st_bind s).
Proof. exact quote_survives_non_identifier. Qed.
Print Assumptions C07_quote_flag_survives.

Theorem C07_core_registry_keeps_quote : forall (FO : FloatOps), reg_quote_kept (mk_registry tbl_core).
Proof. exact @core_quote_kept. Qed.
Print Assumptions C07_core_registry_keeps_quote.

Theorem C07_full_registry_keeps_quote : forall (FO : FloatOps), reg_quote_kept full_registry.
Proof. exact @full_quote_kept. Qed.
Print Assumptions C07_full_registry_keeps_quote.

Theorem C07_quoted_name_to_name_stack : forall (FO : FloatOps) p w s n r,
  st_exec s = IName n :: r -> st_quote s = true ->
  step p full_registry w s = Ok (false, w, set_quote (set_name (set_exec s r) (n :: st_name s)) false).
Proof. exact @quoted_name_to_name_stack. Qed.
Print Assumptions C07_quoted_name_to_name_stack.

Theorem C07_code_definition_returns_binding : forall s n nr t,
  st_name s = n :: nr -> bind_get (st_bind s) n = Some t ->
  code_definition s = Ok (push_code (set_name s nr) t).
Proof. exact code_definition_returns_binding. Qed.
Print Assumptions C07_code_definition_returns_binding.

Example C07_nonvacuous :
  let s := set_int (set_name empty_state [[88]]) [5] in
  exists s', g_define st_int set_int (fun z => ILit (LInt z)) s = Ok s' /\ bind_get (st_bind s') [88] = Some (ILit (LInt 5)).
Proof. eexists. split; reflexivity. Qed.

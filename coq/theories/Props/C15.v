(* C15 — a step's time and memory are bounded by the state.
   Only statements, each closed by [exact] of a lemma from Proofs/, with [Print Assumptions]
   beneath.

   The property is LARGELY REFUTED BY DESIGN OF THE CODE.  What holds is proved
   (C15_cost_*, C15_weight_growth, C15_step_growth): outside the instructions listed in
   [KnownUnbounded] the counted work of an instruction is bounded by the weight of the state
   (and the configured max_points_in_random_expressions), and outside [GrowthExcluded] one
   step at most doubles the weight of the state.  What fails is refuted with witnesses
   computed in the model (C15_*_refuted): operand-sized allocation has no cap, and the
   configured max_points_in_program is read nowhere (the growth cap of the run loop counts
   stack depths only), so a doubling program reaches 3 * 2^200 - 1 points under the default
   limits.  All quantities are COUNTS (Model/Cost.v): cells and loop iterations, not bytes
   and not seconds. *)
From Coq Require Import ZArith String List Bool.
From PushModel Require Import Base.Sx Base.Machine Base.ListOps Base.F32 Model.Item Model.GraphT Model.State
  Model.InstrBase Model.IScalar Model.ICode Model.IVector Model.IGraph Model.Registry Model.Interp Model.RandomGen
  Model.IRand Model.RegistryAll Model.Cost
  Model.Topology Model.INeighbor
  Proofs.CostBound Proofs.CostGrowthAll Proofs.CostRefute Proofs.CostDoubling Proofs.CostNegative.
Import ListNotations.
Close Scope string_scope.
Open Scope Z_scope.

Section C15.
  Context {FO : FloatOps}.

  (* ================= the part that holds ================= *)

  (* Every instruction whose work is not controlled by the magnitude of an operand: the counted
     work is at most a polynomial of degree two in the weight of the state, plus the configured
     limit on random expressions. *)
  Theorem C15_cost_bounded :
    forall (n : string) (s : state), KnownUnbounded n = false ->
      cost n s <= weight s * weight s + 4 * weight s + 64 + limits s.
  Proof. exact cost_bounded. Qed.

  (* ... linear for all of them but the six sorts, the nested code helpers and the graph scans *)
  Theorem C15_cost_linear :
    forall (n : string) (s : state), cost_class n = Linear -> cost n s <= 4 * weight s + 64 + limits s.
  Proof. exact cost_linear. Qed.

  Theorem C15_cost_sort :
    forall (n : string) (s : state), cost_class n = NLogN ->
      cost n s <= weight s * (Z.log2 (weight s) + 2) + 64.
  Proof. exact cost_nlogn. Qed.

  Theorem C15_cost_quadratic :
    forall (n : string) (s : state), cost_class n = Quadratic ->
      cost n s <= weight s * weight s + 4 * weight s + 64.
  Proof. exact cost_quadratic. Qed.

  (* One instruction of the registry at most doubles the weight of the state (DUP, LIST, CONS,
     APPEND, S, Y, CAT, YANKDUP, DEFINITION ...), plus a constant. *)
  Theorem C15_weight_growth :
    forall (n : string) (f : sem), In (n, f) full_table -> GrowthExcluded n = false ->
    forall p w s w' s', f p w s = Ok (w', s') -> weight s' <= 2 * weight s + 64.
  Proof. exact weight_growth. Qed.

  (* The same for one interpreter step, whatever is on top of EXEC (literal, name, bound name,
     list, registered or unknown instruction). *)
  Theorem C15_step_growth :
    forall p w s fin w' s',
      step p full_registry w s = Ok (fin, w', s') ->
      (forall n k, hd_error (st_exec s) = Some (IInstr n) -> s2l k = n -> GrowthExcluded k = false) ->
      weight s' <= 2 * weight s + 64.
  Proof. exact step_growth. Qed.

  (* A non-positive size operand allocates nothing, in any state: T.ONES / T.ZEROS (n <= 0),
     FLOATVECTOR.SINE (repaired; n < 0), the three vector RANDs (size < 0), LIST.NEIGHBOR* (size <= 0). *)
  Theorem C15_nonpositive_size_allocates_nothing :
    (forall A (get : state -> list (list A)) set x s n r s',
        st_int s = n :: r -> n <= 0 -> vec_fill get set x s = Ok s' -> weight s' = weight s - 1) /\
    (forall s n r s', st_int s = n :: r -> n < 0 -> fvec_sine s = Ok s' -> weight s' <= weight s) /\
    (forall p w s w' s' size r, st_int s = size :: r -> size < 0 ->
        (bool_vector_rand p w s = Ok (w', s') -> weight s' <= weight s) /\
        (float_vector_rand p w s = Ok (w', s') -> weight s' <= weight s)) /\
    (forall p w s w' s' size hi lo r, st_int s = size :: hi :: lo :: r -> size < 0 ->
        int_vector_rand p w s = Ok (w', s') -> weight s' <= weight s) /\
    (forall p s s' t2 t1 t0 r, st_int s = t2 :: t1 :: t0 :: r -> t2 <= 0 ->
        list_neighbor_ids p s = Ok s' -> weight s' <= weight s) /\
    (forall p s s' t3 t2 t1 t0 r, st_int s = t3 :: t2 :: t1 :: t0 :: r -> t2 <= 0 ->
        (list_neighbor_bvals p s = Ok s' -> weight s' <= weight s) /\
        (list_neighbor_ivals p s = Ok s' -> weight s' <= weight s) /\
        (list_neighbor_fvals p s = Ok s' -> weight s' <= weight s)).
  Proof.
    split; [exact (@fill_nonpos)|]. split; [exact sine_negative|].
    split; [intros p w s w' s' size r E H; split; [exact (bool_vector_rand_negative p w s w' s' size r E H)
                                                  |exact (float_vector_rand_negative p w s w' s' size r E H)]|].
    split; [exact int_vector_rand_negative|]. split; [exact neighbor_ids_nonpos|].
    intros p s s' t3 t2 t1 t0 r E H. repeat split; apply (neighbor_vals_nonpos _ _ p s s' t3 t2 t1 t0 r E H).
  Qed.

  (* ================= the part that fails: operand-sized work ================= *)

  (* T.ONES / T.ZEROS: a state of weight 1 becomes a state of weight 1 + n, for every n > 0 *)
  Theorem C15_ones_zeros_unbounded_refuted :
    forall n, 0 < n ->
      (exists s', bvec_ones (int_state [n]) = Ok s' /\ weight (int_state [n]) = 1 /\ weight s' = 1 + n) /\
      (exists s', bvec_zeros (int_state [n]) = Ok s' /\ weight (int_state [n]) = 1 /\ weight s' = 1 + n) /\
      (exists s', ivec_ones (int_state [n]) = Ok s' /\ weight (int_state [n]) = 1 /\ weight s' = 1 + n) /\
      (exists s', ivec_zeros (int_state [n]) = Ok s' /\ weight (int_state [n]) = 1 /\ weight s' = 1 + n) /\
      (exists s', fvec_ones (int_state [n]) = Ok s' /\ weight (int_state [n]) = 1 /\ weight s' = 1 + n) /\
      (exists s', fvec_zeros (int_state [n]) = Ok s' /\ weight (int_state [n]) = 1 /\ weight s' = 1 + n) /\
      cost "BOOLVECTOR.ONES" (int_state [n]) = 1 + n.
  Proof.
    intros n H. repeat split;
      first [ exact (bvec_fill_grows _ n H) | exact (ivec_fill_grows _ n H) | exact (fvec_fill_grows _ n H)
            | exact (cost_fill n H) ].
  Qed.

  (* FLOATVECTOR.SINE with a non-negative length n: weight 4 becomes 1 + n whenever it returns *)
  Theorem C15_sine_unbounded_refuted :
    forall a x phi n s', 0 <= n -> fvec_sine (sine_state a x phi n) = Ok s' ->
      weight (sine_state a x phi n) = 4 /\ weight s' = 1 + n /\ c_sine (sine_state a x phi n) = 1 + n.
  Proof. exact sine_grows. Qed.

  (* the three vector RANDs: with_capacity(size) + size draws *)
  Theorem C15_rand_vector_unbounded_refuted :
    forall p w n, 0 <= n ->
      (exists w' s', int_vector_rand p w (int_state [n; 1; 0]) = Ok (w', s') /\
                     weight (int_state [n; 1; 0]) = 3 /\ weight s' = 1 + n) /\
      cost "INTVECTOR.RAND" (int_state [n; 1; 0]) = 1 + 2 * n /\
      cost "BOOLVECTOR.RAND" (int_state [n; 1; 0]) = 1 + 2 * n /\
      cost "FLOATVECTOR.RAND" (int_state [n; 1; 0]) = 1 + 2 * n.
  Proof.
    intros p w n H. repeat split; first [exact (int_vector_rand_grows p w n H) | exact (cost_rand_vec n _ H)].
  Qed.

  (* LIST.NEIGHBOR*: the loop over 0..ntotal, one decomposition per index *)
  Theorem C15_neighbor_unbounded_refuted :
    forall n, 1 <= n -> weight (int_state [n; 0; 1]) = 3 /\ cost "LIST.NEIGHBOR*IDS" (int_state [n; 0; 1]) = 2 + 2 * n.
  Proof. intros n H. split; [exact (weight_int_state [n; 0; 1]) | exact (cost_neighbor n H)]. Qed.

  (* ================= the part that fails: the configured maximum is dead ================= *)

  (* `( CODE.QUOTE ( 1 ) EXEC.Y ( CODE.DUP CODE.LIST ) )` under the DEFAULT limits: the run loop
     ends at the STEP limit (the growth cap never fires) holding a CODE item of 3 * 2^200 - 1
     points, the configured max_points_in_program being 100 *)
  Theorem C15_max_points_dead_refuted :
    forall p w, exists s' r,
      run p full_registry (fun _ => 0) w (doubling_state default_cfg) = Ok (StepLimit, w, s') /\
      st_code s' = dbl 200 one_item :: r /\
      cfg_max_points_prog (st_cfg s') = 100 /\ 2 ^ 200 <= size (dbl 200 one_item).
  Proof. exact doubling_run. Qed.

  (* after 1 + 5k steps the top CODE item has 3 * 2^k - 1 points, for every configuration *)
  Theorem C15_doubling_lower_bound :
    forall p w cfg k, exists s' r,
      steps p full_registry (S (5 * k)) w (copy_to_code (doubling_state cfg)) = Ok (false, w, s') /\
      st_code s' = dbl k one_item :: r /\ size (dbl k one_item) = 3 * 2 ^ Z.of_nat k - 1.
  Proof. exact doubling_points. Qed.

  (* `( A EXEC.Y ( NAME.DUP NAME.CAT ) )`: after 1 + 5k steps the NAME has 2^(k+1) - 1 characters *)
  Theorem C15_name_doubling_refuted :
    forall p w k, exists s',
      steps p full_registry (S (5 * k)) w name_state = Ok (false, w, s') /\
      st_name s' = [ dbl_name k [65] ] /\ zlen (dbl_name k [65]) = 2 ^ (Z.of_nat k + 1) - 1.
  Proof. exact name_doubling. Qed.

  (* ================= multiplying instructions ================= *)

  (* CODE.SUBST: one clone of the substitute per occurrence of the pattern *)
  Theorem C15_subst_multiplies_refuted :
    exists s', code_subst subst_state = Ok s' /\ weight subst_state = 124 /\ weight s' = 1641 /\
               2 * weight subst_state + 64 < weight s'.
  Proof. exact subst_multiplies. Qed.

  (* GRAPH.NODES: one id per matching ENTRY of the state vector *)
  Theorem C15_graph_nodes_multiplies_refuted :
    exists s', graph_nodes nodes_state = Ok s' /\ weight nodes_state = 42 /\ weight s' = 422 /\
               2 * weight nodes_state + 64 < weight s'.
  Proof. exact nodes_multiplies. Qed.
End C15.

Print Assumptions C15_cost_bounded.
Print Assumptions C15_cost_linear.
Print Assumptions C15_cost_sort.
Print Assumptions C15_cost_quadratic.
Print Assumptions C15_weight_growth.
Print Assumptions C15_step_growth.
Print Assumptions C15_nonpositive_size_allocates_nothing.
Print Assumptions C15_ones_zeros_unbounded_refuted.
Print Assumptions C15_sine_unbounded_refuted.
Print Assumptions C15_rand_vector_unbounded_refuted.
Print Assumptions C15_neighbor_unbounded_refuted.
Print Assumptions C15_max_points_dead_refuted.
Print Assumptions C15_doubling_lower_bound.
Print Assumptions C15_name_doubling_refuted.
Print Assumptions C15_subst_multiplies_refuted.
Print Assumptions C15_graph_nodes_multiplies_refuted.

(* ---- history / non-vacuity ---- *)

(* the code of the pinned tree: FLOATVECTOR.SINE with length -1 performed 2^64 iterations
   (repaired by fixes/C09-07-sine-negative-length.patch; regression: stream "negative-sizes") *)
Example C15_sine_pinned_negative_refuted :
  forall a x phi, c_sine_pinned (sine_state a x phi (-1)) = two64.
Proof. exact sine_pinned_negative. Qed.

(* the code of the pinned tree: CODE.RAND with i32::MIN requested 2^64 - 2^31 points in release
   builds (repaired by b07010f); the repaired body is bounded by the configured limit *)
Example C15_code_rand_pinned_refuted : c_code_rand_pinned (int_state [min32]) = two64 - 2147483648.
Proof. exact code_rand_pinned_min. Qed.
Example C15_code_rand_bounded : forall s, c_code_rand s <= 1 + limits s.
Proof. exact code_rand_bounded. Qed.

(* ONES with 1000 on a state of weight 1 *)
Example C15_ones_1000 :
  cost "BOOLVECTOR.ONES" (int_state [1000]) = 1001 /\ weight (int_state [1000]) = 1 /\
  4 * weight (int_state [1000]) + 64 < cost "BOOLVECTOR.ONES" (int_state [1000]).
Proof. vm_compute. repeat split; reflexivity. Qed.

(* the bounded classes are inhabited: a linear, a sorting and a quadratic instruction, and the
   hypothesis of C15_weight_growth is met by a structure-doubling instruction *)
Example C15_nonvacuous_classes :
  cost_class "CODE.DUP" = Linear /\ cost_class "INTVECTOR.SORT*ASC" = NLogN /\ cost_class "CODE.CONTAINS" = Quadratic /\
  KnownUnbounded "CODE.DUP" = false /\ GrowthExcluded "CODE.DUP" = false /\ GrowthExcluded "EXEC.Y" = false /\
  GrowthExcluded "NAME.CAT" = false /\ KnownUnbounded "FLOATVECTOR.SINE" = true.
Proof. vm_compute. repeat split; reflexivity. Qed.

(* 7 doublings (36 steps) already exceed the default max_points_in_program = 100 *)
Example C15_seven_doublings : size (dbl 7 one_item) = 383 /\ cfg_max_points_prog default_cfg < size (dbl 7 one_item).
Proof. vm_compute. split; reflexivity. Qed.

(* C14 — determinism and isolation.  Statements only.

   world (Model/Registry.v) = everything outside the PushState value: the
   process-wide node counter and the outcomes of the random number generator.
   "What ran earlier in the process" and "what other interpreter instances do
   concurrently" can reach an interpreter ONLY through the world (a PushState owns
   all its data; the instruction table is rebuilt per instance and immutable), so
   independence of the world is independence of both.  What the model cannot
   exhibit — real thread interleavings, the memory model behind AtomicUsize,
   HashMap seed randomness, thread-local RNG state — is sampled at run time
   (checks/C14.py) and named there as PARTIAL. *)
From Coq Require Import ZArith String List Bool Sorted.
From PushModel Require Import Base.Sx Base.Machine Base.F32 Model.Item Model.GraphT Model.Graph Model.State
  Model.InstrBase Model.ICode Model.IGraph Model.INeighbor Model.Registry Model.Interp Model.RegistryRand
  Model.RegistryAll Model.Cli
  Spec.DetSpec Proofs.DeterminismProfile Proofs.Determinism Proofs.DeterminismIds Proofs.DeterminismCli.
Import ListNotations.
Open Scope Z_scope.
Open Scope string_scope.

(* ---- 1. only the listed instructions read the world ---- *)
(* Every entry of the registry whose name is not in [world_reading_names] computes
   its state from (profile, state) alone and hands back the world it was given:
     f p w2 s  =  f p w1 s  with the world component replaced by w2. *)
Theorem C14_pure_sems_ignore_world : forall (FO : FloatOps),
  Forall (fun e : string * sem =>
            world_reading (fst e) = false ->
            forall p w1 w2 s,
              snd e p w2 s = rmap (fun r => (w2, snd r)) (snd e p w1 s) /\
              (forall w' s', snd e p w1 s = Ok (w', s') -> w' = w1))
         full_table.
Proof. exact @pure_sems_ignore_world. Qed.
Print Assumptions C14_pure_sems_ignore_world.

(* ---- 2. programs cannot synthesise an instruction from a name ---- *)
(* One interpreter step adds to the set of instruction names occurring anywhere in
   the state (EXEC, CODE, bound values, at any depth) at most the six re-arm names —
   unless the state mentions CODE.RAND, the one instruction that builds code from
   the names of the instruction cache. *)
Theorem C14_instr_names_closed_general : forall (FO : FloatOps) p w s fin w' s' n,
  instr_name_in_state s (s2l "CODE.RAND") = false ->
  step p full_registry w s = Ok (fin, w', s') ->
  instr_name_in_state s' n = true ->
  instr_name_in_state s n = true \/ name_in rearm_names n = true.
Proof. exact @instr_names_closed_general. Qed.
Print Assumptions C14_instr_names_closed_general.

(* hence "mentions no world-reading instruction" (GRAPH.NODE*ADD, the nine RAND
   instructions — CODE.RAND among them) is an invariant of execution *)
Theorem C14_instr_names_closed : forall (FO : FloatOps) p w s fin w' s',
  no_world_reading s -> step p full_registry w s = Ok (fin, w', s') -> no_world_reading s'.
Proof. exact @instr_names_closed_lemma. Qed.
Print Assumptions C14_instr_names_closed.

(* ---- 3. independence of the world ---- *)
(* [drop_world] keeps the completion flag / outcome and the state of a result (or
   the panic / libm request) and forgets the world component. *)
Theorem C14_world_independent : forall (FO : FloatOps) p w1 w2 k s,
  no_world_reading s ->
  drop_world (steps p full_registry k w1 s) = drop_world (steps p full_registry k w2 s).
Proof. exact @world_independent_steps. Qed.
Print Assumptions C14_world_independent.

Theorem C14_world_independent_run : forall (FO : FloatOps) p clock w1 w2 s,
  no_world_reading s ->
  drop_world (run p full_registry clock w1 s) = drop_world (run p full_registry clock w2 s).
Proof. exact @world_independent_run. Qed.
Print Assumptions C14_world_independent_run.

(* ---- 4. independence of the build profile ---- *)
(* Every entry of the registry outside [profile_exceptions] returns the same result
   under Debug and Release on EVERY state (all but CODE.EXTRACT never see the
   profile; CODE.EXTRACT's usize subtractions never go below zero). *)
Theorem C14_profile_independent : forall (FO : FloatOps),
  Forall (fun e : string * sem =>
            lit_in [ "CODE.INSERT"; "LIST.NEIGHBOR*IDS"; "LIST.NEIGHBOR*BVALS"; "LIST.NEIGHBOR*IVALS";
                     "LIST.NEIGHBOR*FVALS"; "BOOLVECTOR.RAND" ] (fst e) = false ->
            forall w s, snd e Debug w s = snd e Release w s)
         full_table.
Proof. exact @sems_profile_blind. Qed.
Print Assumptions C14_profile_independent.

(* The exceptions, with their exact side conditions.
   CODE.INSERT agrees whenever the index operand read as usize is non-negative,
   i.e. top INTEGER >= -2^64 — true of every i32. *)
Theorem C14_profile_independent_insert : forall (FO : FloatOps) w s,
  match st_int s with idx :: _ => - two64 <= idx | [] => True end ->
  purep code_insert Debug w s = purep code_insert Release w s.
Proof. intros FO. exact insert_profile_blind. Qed.
Print Assumptions C14_profile_independent_insert.

(* LIST.NEIGHBOR* agree whenever the neighbourhood search on their (clamped) operands
   does: that is C20_profile_independent's size condition (beyond it powf(d, 2.0) and
   d * d differ in the last bit).  BOOLVECTOR.RAND is a RAND instruction (outside
   this property); it differs only when `num_active_bits + 1` overflows an i32. *)
Theorem C14_profile_independent_neighbor_ids : forall (FO : FloatOps) w s,
  match st_int s, st_float s with
  | t2 :: t1 :: t0 :: _, fv :: _ => nbr_call Debug t2 t1 t0 fv = nbr_call Release t2 t1 t0 fv
  | _, _ => True
  end ->
  purep list_neighbor_ids Debug w s = purep list_neighbor_ids Release w s.
Proof. exact @neighbor_ids_profile_blind. Qed.
Print Assumptions C14_profile_independent_neighbor_ids.

Theorem C14_profile_independent_neighbor_vals : forall (FO : FloatOps) A (f : item -> Z -> A) push w s,
  match tl (st_int s), st_float s with
  | t2 :: t1 :: t0 :: _, fv :: _ => nbr_call Debug t2 t1 t0 fv = nbr_call Release t2 t1 t0 fv
  | _, _ => True
  end ->
  purep (list_neighbor_vals f push) Debug w s = purep (list_neighbor_vals f push) Release w s.
Proof. exact @neighbor_vals_profile_blind. Qed.
Print Assumptions C14_profile_independent_neighbor_vals.

(* whole executions: for states that mention none of the exceptions, nor CODE.RAND
   (which could build one) — an invariant, by 2. *)
Theorem C14_profile_independent_steps : forall (FO : FloatOps) w k s,
  mentions_b profile_names s = false ->
  steps Debug full_registry k w s = steps Release full_registry k w s.
Proof. exact @profile_independent_steps. Qed.
Print Assumptions C14_profile_independent_steps.

Theorem C14_profile_independent_run : forall (FO : FloatOps) clock w s,
  mentions_b profile_names s = false ->
  run Debug full_registry clock w s = run Release full_registry clock w s.
Proof. exact @profile_independent_run. Qed.
Print Assumptions C14_profile_independent_run.

(* the property as worded: any two profiles, any two worlds, same outcome and state *)
Theorem C14_deterministic_run : forall (FO : FloatOps) p1 p2 clock w1 w2 s,
  mentions_b (world_reading_names ++ profile_names) s = false ->
  drop_world (run p1 full_registry clock w1 s) = drop_world (run p2 full_registry clock w2 s).
Proof. exact @deterministic_run. Qed.
Print Assumptions C14_deterministic_run.

(* ---- 5. node identifiers under concurrent creation ---- *)
(* [sched] lists, in the order in which they take effect on the shared counter, the
   threads performing their next `NODE_COUNTER.fetch_add(1)`.  Starting from counter
   value c, as long as c + |sched| < 2^64: the ids are c, c+1, ... in schedule order;
   pairwise distinct across all threads; strictly increasing within each thread;
   all below 2^64 (no wrap) and the counter ends at c + |sched|. *)
Theorem C14_node_ids_unique_under_interleaving : forall (sched : list thread_id) (c : Z),
  0 <= c -> c + Z.of_nat (length sched) < two64 ->
  ids_handed c sched = zseq c (length sched) /\
  NoDup (ids_handed c sched) /\
  (forall t, StronglySorted Z.lt (ids_of_thread t c sched)) /\
  Forall (fun id => c <= id < two64) (ids_handed c sched) /\
  snd (run_sched c sched) = c + Z.of_nat (length sched).
Proof. exact node_ids_unique_lemma. Qed.
Print Assumptions C14_node_ids_unique_under_interleaving.

(* ---- 6. the command-line front end ---- *)
(* s0 = the state the parser left (Model/Parser.v: parse_program).  If BIN occurs
   nowhere in s0 as an identifier, s0 mentions none of the instructions that push
   a computed string on the NAME stack (NAME.CAT CODE.PRINT GRAPH.PRINT
   GRAPH.PRINT*DIFF NAME.RAND NAME.RANDBOUNDNAME) and no RAND instruction
   ([cli_excluded]), and the library's run ends with
   NoErrors (the program terminates within the library's limits), then the CLI loop
   (which has no limits) stops too, in a state that equals the library's final
   state in EVERY field except the binding table — all typed stacks, EXEC, CODE,
   INDEX, INPUT/OUTPUT, GRAPH, configuration, flags — and the binding tables agree
   on every name but BIN.  The final worlds are equal as well. *)
Theorem C14_cli_equals_library : forall (FO : FloatOps) p clock w arg0 s0 w' sl,
  mentions_name_b [ "BIN" ] s0 = false ->
  mentions_b cli_excluded s0 = false ->
  run p full_registry clock w s0 = Ok (NoErrors, w', sl) ->
  exists k sc,
    cli_watch p full_registry k w arg0 s0 = Ok (true, w', sc) /\
    sc = set_bind sl (st_bind sc) /\
    (forall n, n <> BIN -> bind_get (st_bind sc) n = bind_get (st_bind sl) n).
Proof. exact @cli_equals_library_lemma. Qed.
Print Assumptions C14_cli_equals_library.

(* ---------------------------------------------------------------------- *)
(* the name lists the statements refer to, spelled out *)
Example C14_name_lists :
  world_reading_names =
    [ "GRAPH.NODE*ADD"; "BOOLEAN.RAND"; "INTEGER.RAND"; "FLOAT.RAND"; "CODE.RAND"; "NAME.RAND";
      "NAME.RANDBOUNDNAME"; "BOOLVECTOR.RAND"; "INTVECTOR.RAND"; "FLOATVECTOR.RAND" ] /\
  profile_names =
    [ "CODE.INSERT"; "LIST.NEIGHBOR*IDS"; "LIST.NEIGHBOR*BVALS"; "LIST.NEIGHBOR*IVALS"; "LIST.NEIGHBOR*FVALS";
      "BOOLVECTOR.RAND"; "CODE.RAND" ] /\
  cli_excluded =
    [ "NAME.CAT"; "CODE.PRINT"; "GRAPH.PRINT"; "GRAPH.PRINT*DIFF"; "NAME.RAND"; "NAME.RANDBOUNDNAME";
      "BOOLEAN.RAND"; "INTEGER.RAND"; "FLOAT.RAND"; "CODE.RAND"; "NAME.RAND"; "NAME.RANDBOUNDNAME";
      "BOOLVECTOR.RAND"; "INTVECTOR.RAND"; "FLOATVECTOR.RAND" ] /\
  rearm_names = [ "CODE.POP"; "EXEC.Y"; "EXEC.LOOP"; "CODE.LOOP"; "INDEX.INCREASE"; "INTVECTOR.LOOP" ].
Proof. repeat split; reflexivity. Qed.

(* ---------------------------------------------------------------------- *)
(* non-vacuity and necessity of the hypotheses *)
Definition ex_prog : list item :=
  [ ILit (LInt 1); ILit (LInt 2); i_instr "INTEGER.+"; IName (s2l "X"); i_instr "INTEGER.DEFINE"; IName (s2l "X") ].
Definition ex_state : state := set_exec empty_state ex_prog.
Definition w0 : world := {| w_next_node := 1; w_tape := [] |}.
Definition w9 : world := {| w_next_node := 9; w_tape := [ 4 ] |}.

(* the hypotheses of 3., 4. and 6. hold of an ordinary program, which runs to completion *)
Example C14_nonvacuous_run : forall (FO : FloatOps),
  no_world_reading ex_state /\
  instr_name_in_state ex_state (s2l "CODE.RAND") = false /\
  mentions_b (world_reading_names ++ profile_names) ex_state = false /\
  mentions_name_b [ "BIN" ] ex_state = false /\
  mentions_b cli_excluded ex_state = false /\
  exists sl, run Debug full_registry (fun _ => 0) w0 ex_state = Ok (NoErrors, w0, sl) /\ st_int sl = [ 3 ].
Proof.
  intros FO. repeat (split; [reflexivity|]). eexists. split; [vm_compute; reflexivity|reflexivity].
Qed.

(* the world-reading hypothesis is needed: GRAPH.NODE*ADD hands the counter value to the program *)
Definition ex_graph_state : state :=
  set_exec empty_state [ i_instr "GRAPH.ADD"; ILit (LInt 0); i_instr "GRAPH.NODE*ADD" ].
Example C14_world_matters : forall (FO : FloatOps),
  no_world_reading ex_graph_state -> False.
Proof. intros FO H. vm_compute in H. discriminate H. Qed.
Example C14_world_matters_run : forall (FO : FloatOps),
  drop_world (steps Debug full_registry 4 w0 ex_graph_state) <>
  drop_world (steps Debug full_registry 4 w9 ex_graph_state).
Proof. intros FO. vm_compute. discriminate. Qed.

(* the side condition of CODE.INSERT is needed (on a model state that holds a non-i32 integer) *)
Example C14_insert_side_condition_needed : forall (FO : FloatOps),
  let s := set_int (set_code empty_state [ IList [ ILit (LInt 1) ]; ILit (LInt 2) ]) [ - two64 - 5 ] in
  purep code_insert Debug w0 s <> purep code_insert Release w0 s.
Proof. intros FO s. vm_compute. discriminate. Qed.

(* a schedule of three threads *)
Example C14_nonvacuous_ids :
  ids_handed 1 [ 0; 1; 0; 2; 1 ]%nat = [ 1; 2; 3; 4; 5 ] /\
  ids_of_thread 0%nat 1 [ 0; 1; 0; 2; 1 ]%nat = [ 1; 3 ] /\
  ids_of_thread 1%nat 1 [ 0; 1; 0; 2; 1 ]%nat = [ 2; 5 ].
Proof. repeat split; reflexivity. Qed.
(* ... and at the edge of the counter the hypothesis is needed: the id 2^64-1 is followed by 0 *)
Example C14_ids_wrap_at_the_edge :
  ids_handed (two64 - 1) [ 0; 1 ]%nat = [ two64 - 1; 0 ].
Proof. reflexivity. Qed.

(* the CLI on the example program: the same INTEGER stack, and BIN bound in addition *)
Example C14_nonvacuous_cli : forall (FO : FloatOps),
  exists sc, cli_watch Debug full_registry 8 w0 (s2l "pushr") ex_state = Ok (true, w0, sc) /\
             st_int sc = [ 3 ] /\ bind_get (st_bind sc) BIN = Some (IName (s2l "pushr")).
Proof. intros FO. eexists. split; [vm_compute; reflexivity|split; reflexivity]. Qed.
(* a program that names BIN sees the difference: the library pushes the name BIN, the CLI argv[0] *)
Example C14_cli_bin_matters : forall (FO : FloatOps),
  let s := set_exec empty_state [ IName BIN ] in
  (exists sl, steps Debug full_registry 3 w0 (copy_to_code s) = Ok (true, w0, sl) /\ st_name sl = [ BIN ]) /\
  (exists sc, cli_watch Debug full_registry 3 w0 (s2l "pushr") s = Ok (true, w0, sc) /\ st_name sc = [ s2l "pushr" ]).
Proof. intros FO s. split; eexists; (split; [vm_compute; reflexivity|reflexivity]). Qed.

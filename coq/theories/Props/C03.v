(* C03 — the parser accepts every string and builds the tree the text describes.

   Only statements, each closed by [exact] of a lemma from Proofs/Parse*.v, with
   [Print Assumptions] beneath.  [parse_program p names s text] is the Gallina
   model of PushParser::parse_program (Model/Parser.v) on strings = lists of
   Unicode scalar values; [p] the build profile, [names] the registered
   instruction names, [FO] ANY float implementation (parse::<f32>() is
   [fparse], universally quantified).

   The model is the REPAIRED parser (two fix: commits — an unmatched ")" is
   ignored, a truncated vector literal is dropped); the code of the pinned tree
   is [parse_program_pinned], refuted at the end of this file.

   Side condition [str_fits text] : the text has fewer than 2^64 characters.
   Every Rust &str satisfies it (len <= isize::MAX bytes); it is what keeps the
   usize counter `depth += 1` from overflowing.

   Vocabulary (Spec/ParseSpec.v): [classify names tok] the documented lexical
   cascade; [ttree]/[flatten]/[to_stack] token forests, their token sequence
   "(" children ")" and the EXEC stack they denote (first token on top);
   [spec_parse] reads ANY token sequence with an explicit stack of open lists
   (unmatched ")" ignored, lists still open at the end closed). *)
From Coq Require Import ZArith List Bool.
From PushModel Require Import Base.Sx Base.Machine Base.F32 Model.Item Model.State Model.Parser Spec.ParseSpec
  Proofs.ParseLex Proofs.ParseTree Proofs.ParseRules.
Import ListNotations.
Open Scope Z_scope.

(* ---- parsing never crashes: any profile, any instruction set, any text
   (any code points, any balance of parentheses), any state ---- *)
Theorem C03_parse_total :
  forall (FO : FloatOps) (p : profile) (names : list str) (s : state) (text : str),
    str_fits text -> exists s', parse_program p names s text = Ok s'.
Proof. exact @parse_total. Qed.
Print Assumptions C03_parse_total.

(* ---- and the result is the specification's, on EVERY text ---- *)
Theorem C03_parse_is_spec :
  forall (FO : FloatOps) (p : profile) (names : list str) (s : state) (text : str),
    str_fits text ->
    parse_program p names s text = Ok (set_exec s (spec_parse names (st_exec s) text)).
Proof. exact @parse_program_spec. Qed.
Print Assumptions C03_parse_is_spec.

(* ---- only the EXEC stack changes ---- *)
Theorem C03_parse_frame :
  forall (FO : FloatOps) (p : profile) (names : list str) (s : state) (text : str) (s' : state),
    parse_program p names s text = Ok s' -> same_outside (also_exec mask_none) s s'.
Proof. intros FO p names. exact (parse_frame_mask p names false). Qed.
Print Assumptions C03_parse_frame.

(* ---- tokens: split_whitespace recovers tokens joined by blanks ---- *)
Theorem C03_split_ws_join :
  forall ts : list str, Forall good_tok ts -> split_ws (join [32] ts) = ts.
Proof. exact split_ws_join. Qed.
Print Assumptions C03_split_ws_join.

(* ... and any whitespace character separates *)
Theorem C03_split_ws_sep :
  forall (a : str) (w : Z) (b : str), is_ws w = true -> split_ws (a ++ w :: b) = split_ws a ++ split_ws b.
Proof. exact split_ws_app_ws. Qed.
Print Assumptions C03_split_ws_sep.

(* ---- the tree theorem, token level: a forest rendered as "(" children ")"
   parses onto an empty EXEC stack as exactly the forest — same nesting, same
   order, first token on top ---- *)
Theorem C03_parse_tokens_tree :
  forall (FO : FloatOps) (p : profile) (names : list str) (f : list ttree),
    forest_ok names f -> Z.of_nat (length (flatten f)) < two64 ->
    parse_tokens false p names (flatten f) [] 0 = Ok (to_stack names f).
Proof. exact @parse_tokens_tree. Qed.
Print Assumptions C03_parse_tokens_tree.

(* ... text level, tokens separated by blanks ... *)
Theorem C03_parse_text_tree :
  forall (FO : FloatOps) (p : profile) (names : list str) (f : list ttree) (s : state),
    forest_ok names f -> Forall good_tok (flatten f) -> str_fits (join [32] (flatten f)) -> st_exec s = [] ->
    parse_program p names s (join [32] (flatten f)) = Ok (set_exec s (to_stack names f)).
Proof. exact @parse_join_tree. Qed.
Print Assumptions C03_parse_text_tree.

(* ... or by anything split_whitespace removes *)
Theorem C03_parse_text_tree_any_separator :
  forall (FO : FloatOps) (p : profile) (names : list str) (f : list ttree) (s : state) (text : str),
    split_ws text = flatten f -> forest_ok names f -> str_fits text ->
    parse_program p names s text = Ok (set_exec s (st_exec s ++ to_stack names f)).
Proof. exact @parse_text_tree. Qed.
Print Assumptions C03_parse_text_tree_any_separator.

(* the token sequence of a forest is what the checker calls balanced *)
Theorem C03_forest_balanced :
  forall (FO : FloatOps) (names : list str) (f : list ttree),
    forest_ok names f -> balanced names (flatten f) = true.
Proof. exact @balanced_forest. Qed.
Print Assumptions C03_forest_balanced.

(* ---- classification: one iteration of the token loop pushes (at the current
   depth) the item [classify] names, opens / closes a list, or drops the token ---- *)
Theorem C03_parse_classifies :
  forall (FO : FloatOps) (p : profile) (names : list str) (tok : str) (e : list item) (d : Z),
    tok_step false p names tok e d =
    match classify names tok with
    | CItem t => Ok (push_at e t d, d)
    | CDrop => Ok (e, d)
    | COpen => let! d' := uadd p d 1 in Ok (push_at e (IList []) d, d')
    | CClose => Ok (e, if d =? 0 then 0 else d - 1)
    end.
Proof. exact @tok_step_classify. Qed.
Print Assumptions C03_parse_classifies.

(* the rules of [classify], each as an implication, in order of precedence *)
Theorem C03_classify_vec :
  forall (FO : FloatOps) (names : list str) (tok : str) (vt : vtype) (k : nat) (body : str),
    vec_prefix tok = Some (vt, k) -> vec_elems_text k tok = Some body ->
    classify names tok = match parse_vector vt body with Some v => CItem (ILit v) | None => CDrop end.
Proof. exact @classify_vec. Qed.
Print Assumptions C03_classify_vec.

Theorem C03_classify_vec_truncated :
  forall (FO : FloatOps) (names : list str) (tok : str) (vt : vtype) (k : nat),
    vec_prefix tok = Some (vt, k) -> vec_elems_text k tok = None -> classify names tok = CDrop.
Proof. exact @classify_vec_truncated. Qed.
Print Assumptions C03_classify_vec_truncated.

Theorem C03_classify_instr :
  forall (FO : FloatOps) (names : list str) (tok : str),
    plain tok -> is_instr names tok = true -> classify names tok = CItem (IInstr tok).
Proof. exact @classify_instr. Qed.
Print Assumptions C03_classify_instr.

Theorem C03_classify_int :
  forall (FO : FloatOps) (names : list str) (tok : str) (z : Z),
    plain tok -> is_instr names tok = false -> parse_i32 tok = Some z ->
    classify names tok = CItem (ILit (LInt z)).
Proof. exact @classify_int. Qed.
Print Assumptions C03_classify_int.

Theorem C03_classify_float :
  forall (FO : FloatOps) (names : list str) (tok : str) (f : f32),
    plain tok -> is_instr names tok = false -> parse_i32 tok = None -> fparse tok = Some f ->
    classify names tok = CItem (ILit (LFloat f)).
Proof. exact @classify_float. Qed.
Print Assumptions C03_classify_float.

Theorem C03_classify_bool :
  forall (FO : FloatOps) (names : list str) (b : bool),
    is_instr names (bool_str b) = false -> fparse (bool_str b) = None ->
    classify names (bool_str b) = CItem (ILit (LBool b)).
Proof. exact @classify_bool. Qed.
Print Assumptions C03_classify_bool.

Theorem C03_classify_name :
  forall (FO : FloatOps) (names : list str) (tok : str),
    plain tok -> is_instr names tok = false -> parse_i32 tok = None -> fparse tok = None ->
    tok <> s_true -> tok <> s_false -> classify names tok = CItem (IName tok).
Proof. exact @classify_name. Qed.
Print Assumptions C03_classify_name.

(* the byte slice token.get(k..len-1) the code takes IS the character-level
   element text used by [classify] *)
Theorem C03_vector_slice :
  forall (pre tok : str), starts_with pre tok = true -> str_bytes pre = Z.of_nat (length pre) ->
    slice_opt tok (Z.of_nat (length pre)) (str_bytes tok - 1) = vec_elems_text (length pre) tok.
Proof. exact slice_vec_body. Qed.
Print Assumptions C03_vector_slice.

(* ---- a malformed vector literal contributes nothing and its neighbours are
   parsed as if it were absent (any position, any depth, any stack) ---- *)
Theorem C03_parse_drops_bad_vector :
  forall (FO : FloatOps) (p : profile) (names : list str) (tok : str) (a b : list str) (e : list item) (d : Z),
    classify names tok = CDrop ->
    parse_tokens false p names (a ++ tok :: b) e d = parse_tokens false p names (a ++ b) e d.
Proof. exact @parse_drops_bad_vector. Qed.
Print Assumptions C03_parse_drops_bad_vector.

Theorem C03_parse_text_drops_bad_vector :
  forall (FO : FloatOps) (p : profile) (names : list str) (a tok b : str) (e : list item),
    good_tok tok -> classify names tok = CDrop ->
    parse_exec false p names e (a ++ [32] ++ tok ++ [32] ++ b) = parse_exec false p names e (a ++ [32] ++ b).
Proof. exact @parse_text_drops. Qed.
Print Assumptions C03_parse_text_drops_bad_vector.

(* ---- parsing onto a non-empty EXEC stack puts the new top-level items
   beneath the old ones ---- *)
Theorem C03_parse_onto_nonempty :
  forall (FO : FloatOps) (p : profile) (names : list str) (pre : list item) (text : str),
    str_fits text ->
    parse_exec false p names pre text = Ok (pre ++ spec_parse names [] text) /\
    parse_exec false p names [] text = Ok (spec_parse names [] text).
Proof. exact @parse_onto_nonempty. Qed.
Print Assumptions C03_parse_onto_nonempty.

(* ---- rec_push: the four equations of the Rust function ---- *)
Theorem C03_rec_push_equations :
  forall (l : list item) (x : item) (d : Z),
    rec_push l x 0 = (l ++ [x], true) /\
    (d <> 0 -> rec_push [] x d = ([x], true)) /\
    (d <> 0 -> forall c, rec_push (l ++ [IList c]) x d =
                         (l ++ [IList (fst (rec_push c x (d - 1)))], snd (rec_push c x (d - 1)))) /\
    (d <> 0 -> forall b, (forall c, b <> IList c) -> rec_push (l ++ [b]) x d = (l ++ [b], false)).
Proof.
  intros l x d. split; [exact (rec_push_0 l x)|]. split; [exact (rec_push_nil x d)|].
  split; [intros H c; exact (rec_push_list l c x d H)|intros H b; exact (rec_push_atom l b x d H)].
Qed.
Print Assumptions C03_rec_push_equations.

(* ---- non-vacuity ---- *)
(* "( 1 ( X ) -2 INT[3,4] INT[ )" with X registered, any float implementation *)
Definition ex_text : str :=
  [40; 32; 49; 32; 40; 32; 88; 32; 41; 32; 45; 50; 32; 73; 78; 84; 91; 51; 44; 52; 93; 32; 73; 78; 84; 91; 32; 41].
Example C03_nonvacuous_parse : forall (FO : FloatOps) (p : profile),
  parse_program p [[88]] empty_state ex_text =
  Ok (set_exec empty_state [IList [ILit (LInt 1); IList [IInstr [88]]; ILit (LInt (-2)); ILit (LIntVec [3; 4])]]).
Proof. intros. reflexivity. Qed.
Example C03_nonvacuous_fits : str_fits ex_text.
Proof. reflexivity. Qed.
Example C03_nonvacuous_forest : forall (FO : FloatOps),
  let f := [TL [TA [49]; TL [TA [88]]; TA [45; 50]; TA [73; 78; 84; 91]]] in
  forest_ok [[88]] f /\ Forall good_tok (flatten f) /\ to_stack [[88]] f = [IList [ILit (LInt 1); IList [IInstr [88]]; ILit (LInt (-2))]].
Proof.
  intros. split; [|split].
  - repeat constructor; cbn; discriminate.
  - repeat constructor; discriminate.
  - reflexivity.
Qed.
(* unbalanced and hostile input is still total *)
Example C03_nonvacuous_soup : forall (FO : FloatOps) (p : profile),
  parse_program p [] empty_state [41; 32; 41; 32; 40; 32; 40; 32; 66; 79; 79; 76; 91; 32; 73; 78; 84; 91; 49; 44; 233] =
  Ok (set_exec empty_state [IList [IList []]]).
Proof. intros. reflexivity. Qed.

(* ---- the pinned tree: totality refuted ---- *)
(* ")" : `depth -= 1` underflows in a debug build ... *)
Example C03_total_pinned_refuted_close : forall (FO : FloatOps),
  parse_program_pinned Debug [] empty_state [41] = Panic.
Proof. intros. reflexivity. Qed.
(* ... and wraps in a release build, after which "A" lands on top level and "( B )" is flattened *)
Example C03_tree_pinned_refuted_release : forall (FO : FloatOps),
  parse_program_pinned Release [[65]; [66]] empty_state [41; 32; 65; 32; 40; 32; 66; 32; 41] =
  Ok (set_exec empty_state [IInstr [65]; IInstr [66]]).
Proof. intros. reflexivity. Qed.
(* "INT[" "FLOAT[" "BOOL[" : slice start > end, every profile *)
Example C03_total_pinned_refuted_prefix : forall (FO : FloatOps) (p : profile),
  parse_program_pinned p [] empty_state s_INT = Panic /\
  parse_program_pinned p [] empty_state s_FLOAT = Panic /\
  parse_program_pinned p [] empty_state s_BOOL = Panic.
Proof. intros. repeat split; reflexivity. Qed.
(* "INT[1,2é" : the slice ends inside the two-byte scalar U+00E9 *)
Example C03_total_pinned_refuted_multibyte : forall (FO : FloatOps) (p : profile),
  parse_program_pinned p [] empty_state [73; 78; 84; 91; 49; 44; 50; 233] = Panic.
Proof. intros. reflexivity. Qed.

(* C02 — the run loop honours step, growth and time limits and reports the right outcome.
   [runs_to] (Proofs/RunProofs.v) is the independent accounting: a relation over single step
   calls with its own counter.  Statements only. *)
From Coq Require Import ZArith String List Bool.
From PushModel Require Import Base.Sx Base.Machine Base.F32 Model.Item Model.GraphT Model.State
  Model.InstrBase Model.Registry Model.Interp Model.RegistryAll Proofs.RunProofs Proofs.CfgStable.
Import ListNotations.
Open Scope Z_scope.

(* the program is copied to the CODE stack first *)
Theorem C02_run_copies_program_first : forall s,
  st_code (copy_to_code s) = (st_exec s ++ st_code s)%list /\ st_exec (copy_to_code s) = st_exec s.
Proof. intros s. split; reflexivity. Qed.
Print Assumptions C02_run_copies_program_first.

(* a step on an empty EXEC stack reports completion and changes nothing *)
Theorem C02_step_empty_exec_noop : forall p reg w s, st_exec s = [] -> step p reg w s = Ok (true, w, s).
Proof. exact step_empty_exec_noop. Qed.
Print Assumptions C02_step_empty_exec_noop.

(* whatever run returns is what the accounting of single steps yields, for EVERY clock *)
Theorem C02_run_follows_accounting : forall p reg clock fuel c w s o w' s',
  run_loop p reg clock fuel c w s = Ok (o, w', s') -> o <> OutOfFuel -> runs_to p reg clock c w s o w' s'.
Proof. intros p reg clock fuel. exact (run_loop_sound p reg clock fuel). Qed.
Print Assumptions C02_run_follows_accounting.

(* the fuel of [run] is always sufficient: the model's run never stops for lack of fuel *)
Theorem C02_run_fuel_sufficient : forall p reg clock, reg_cfg_stable reg ->
  forall w s r, run p reg clock w s = Ok r -> fst (fst r) <> OutOfFuel.
Proof.
  intros p reg clock R w s r H. unfold run in H.
  eapply (run_loop_fuel p reg clock (step_cfg_stable p reg R)); [|exact H].
  unfold run_fuel. Lia.lia.
Qed.
Print Assumptions C02_run_fuel_sufficient.

(* outcome and final state are determined by the accounting (it is a function) *)
Theorem C02_accounting_deterministic : forall p reg clock c w s o1 w1 s1 o2 w2 s2,
  runs_to p reg clock c w s o1 w1 s1 -> runs_to p reg clock c w s o2 w2 s2 -> o1 = o2 /\ w1 = w2 /\ s1 = s2.
Proof. exact runs_to_deterministic. Qed.
Print Assumptions C02_accounting_deterministic.

(* the state left behind is the state reached by single-stepping j times; never more than
   limit+1 steps; StepLimit only when exactly limit+1 steps were used; NoErrors only with an
   empty EXEC stack; TimeLimit only once the clock has passed the limit; GrowthCap only when the
   last step enlarged the state by more than growth_cap *)
Theorem C02_outcomes : forall p reg clock, reg_cfg_stable reg -> forall c w s o w' s',
  runs_to p reg clock c w s o w' s' ->
  exists j : nat,
    iter_step p reg j w s = Ok (w', s') /\ st_cfg s' = st_cfg s /\
    (c <= cfg_eval_push_limit (st_cfg s) + 1 -> c + Z.of_nat j <= cfg_eval_push_limit (st_cfg s) + 1) /\
    (o = StepLimit -> c <= cfg_eval_push_limit (st_cfg s) + 1 -> c + Z.of_nat j = cfg_eval_push_limit (st_cfg s) + 1) /\
    (o = NoErrors -> st_exec s' = []) /\
    (o = TimeLimit -> cfg_eval_time_limit (st_cfg s) < clock (c + Z.of_nat j)) /\
    (o = GrowthCap -> exists j0 w0 s0, j = S j0 /\ iter_step p reg j0 w s = Ok (w0, s0) /\
                      state_size s0 + cfg_growth_cap (st_cfg s) < state_size s') /\
    o <> OutOfFuel.
Proof. intros p reg clock R. exact (runs_to_iter p reg clock (step_cfg_stable p reg R)). Qed.
Print Assumptions C02_outcomes.

(* never StepLimit for a program that empties EXEC within the budget *)
Theorem C02_never_steplimit_early : forall p reg clock, reg_cfg_stable reg -> forall c w s o w' s',
  runs_to p reg clock c w s o w' s' ->
  forall j : nat, c + Z.of_nat j <= cfg_eval_push_limit (st_cfg s) ->
  (exists wj sj, iter_step p reg j w s = Ok (wj, sj) /\ st_exec sj = []) -> o <> StepLimit.
Proof. intros p reg clock R. exact (runs_to_not_steplimit_early p reg clock (step_cfg_stable p reg R)). Qed.
Print Assumptions C02_never_steplimit_early.

(* no instruction of the (core) registry writes the configuration *)
Theorem C02_core_registry_cfg_stable : forall (FO : FloatOps), reg_cfg_stable (mk_registry tbl_core).
Proof. exact @core_cfg_stable. Qed.
Print Assumptions C02_core_registry_cfg_stable.

(* ... and none of the FULL registry (all 280 names): so every theorem above applies to the model's interpreter *)
Theorem C02_full_registry_cfg_stable : forall (FO : FloatOps), reg_cfg_stable full_registry.
Proof. exact @full_cfg_stable. Qed.
Print Assumptions C02_full_registry_cfg_stable.

(* the instrumented loop used by the correspondence suite is the run loop, and its count is the
   number of single steps of the accounting *)
Theorem C02_counted_loop_agrees : forall p reg clock fuel c n w s,
  rmap (fun r : outcome * world * state * Z => fst r) (run_loop_n p reg clock fuel c n w s) = run_loop p reg clock fuel c w s.
Proof. intros p reg clock fuel. exact (run_loop_n_agrees p reg clock fuel). Qed.
Print Assumptions C02_counted_loop_agrees.

Theorem C02_counted_loop_counts : forall p reg clock fuel c n w s o w' s' m,
  run_loop_n p reg clock fuel c n w s = Ok (o, w', s', m) ->
  exists j : nat, m = n + Z.of_nat j /\ iter_step p reg j w s = Ok (w', s').
Proof. intros p reg clock fuel. exact (run_loop_n_counts p reg clock fuel). Qed.
Print Assumptions C02_counted_loop_counts.

(* C20 — neighbourhoods on index topologies, instruction part: the four
   instructions LIST.NEIGHBOR*IDS / *BVALS / *IVALS / *FVALS
   (src/push/list.rs:256-355, model: Model/INeighbor.v).
   Only statements, each closed by [exact] of a lemma from Proofs/NbrInstr.v,
   with [Print Assumptions] beneath.

   Operands (INTEGER stack, TOP FIRST — `pop_vec` hands them over bottom to top
   and the code reads size = topology[2], index = topology[1], dimensions =
   topology[0], position = topology[3]):
       *IDS  :             size :: index :: dims :: rest
       *VALS : position :: size :: index :: dims :: rest
   and the radius on top of FLOAT.  The corrections ("clamps"), spelled out in
   every statement:
       size'   = max size 0
       index'  = max (min (size' - 1) index) 0        in [0, size') when size' >= 1
       dims'   = max (min size' dims) 0               in [0, size']
       radius' = f32::max(radius, 0.0): 0 for a NaN or negative radius
       pos'    = position as usize (a negative position addresses nothing:
                 the default value false / 0 / 0.0 is read)
   [consumed] is the state with exactly these operands taken; what an
   instruction returns differs from it by at most the one pushed vector.

   Floats: the statements are parametric in [FloatOps]; the geometric reading
   (the pushed indices are the set [geo_nbrs] of Spec/TopoSpec.v) is the API
   theorem C20_nbr_is_geometric_set under its side conditions ([FloatIntExact],
   [sizes_ok], a non-empty topology); its premise `radius < 0.0 is false` is
   discharged here: the clamped radius never compares below zero.

   *VALS: neighbour j addresses the CODE item j positions below the top
   (`code_stack.get(j)`); neighbours beyond the CODE stack are skipped, so the
   pushed vector is [map (xval . pos') (records_at code nbrs)] with
   [records_at code nbrs] = the items at the positions j of nbrs with
   j < |code|, in the (ascending) order of nbrs.  xval t n is the n-th
   BOOLEAN / INTEGER / FLOAT literal of t in preorder, or false / 0 / 0.0
   (property C19: [bools_of], [ints_of], [floats_of]). *)
From Coq Require Import ZArith String List Bool Sorted.
From PushModel Require Import Base.Sx Base.Machine Base.ListOps Base.F32 Model.Item Model.GraphT Model.State
  Model.InstrBase Model.Registry Model.Interp Model.IList Model.Topology Model.INeighbor Model.RegistryNbr
  Model.RegistryAll Spec.ListSpec Spec.TopoSpec Spec.NbrSpec Proofs.TopoNbr Proofs.NbrInstr.
Import ListNotations.
Close Scope string_scope.
Open Scope Z_scope.

(* LIST.NEIGHBOR*IDS with its three INTEGERs and a FLOAT present: the operands
   are consumed and exactly find_neighbors of the CLAMPED operands is pushed
   onto INTVECTOR (nothing when it yields None; a panic / oracle request of
   the topology model is passed on).  Under the API theorem's side conditions
   the pushed vector is the geometric neighbourhood. *)
Theorem C20i_neighbor_ids_spec :
  forall (FO : FloatOps) (p : profile) (s : state) (size index dims : Z) (rest : list Z) (fv : f32) (frest : list f32),
    st_int s = size :: index :: dims :: rest ->
    st_float s = fv :: frest ->
    let size' := Z.max size 0 in
    let index' := Z.max (Z.min (size' - 1) index) 0 in
    let dims' := Z.max (Z.min size' dims) 0 in
    let radius' := if f_is_nan fv then f_zero else if flt fv f_zero then f_zero else fv in
    let consumed := set_float (set_int s rest) frest in
    list_neighbor_ids p s =
      (let! on := find_neighbors p size' dims' index' radius' in
       Ok (match on with
           | Some nbrs => set_ivec consumed (nbrs :: st_ivec s)
           | None => consumed
           end))
    /\ (1 <= size' -> 0 <= index' < size')
    /\ 0 <= dims' <= size'
    /\ (FloatIntExact FO -> size <= max32 -> 1 <= size' -> 1 <= dims' -> sizes_ok size' dims' ->
        flt radius' f_zero = false /\
        list_neighbor_ids p s = Ok (set_ivec consumed (geo_nbrs size' dims' index' radius' :: st_ivec s))).
Proof. exact @neighbor_ids_spec_lemma. Qed.
Print Assumptions C20i_neighbor_ids_spec.

(* The three *VALS instructions with their four INTEGERs and a FLOAT present:
   same neighbourhood; the pushed vector (BOOLVECTOR / INTVECTOR / FLOATVECTOR)
   holds the addressed value of every record at a neighbour position that
   exists on the CODE stack, in ascending neighbour order. *)
Theorem C20i_neighbor_vals_spec :
  forall (FO : FloatOps) (p : profile) (s : state) (position size index dims : Z) (rest : list Z) (fv : f32) (frest : list f32),
    st_int s = position :: size :: index :: dims :: rest ->
    st_float s = fv :: frest ->
    size <= max32 ->
    let size' := Z.max size 0 in
    let index' := Z.max (Z.min (size' - 1) index) 0 in
    let dims' := Z.max (Z.min size' dims) 0 in
    let radius' := if f_is_nan fv then f_zero else if flt fv f_zero then f_zero else fv in
    let pos' := i32_as_usize position in
    let consumed := set_float (set_int s rest) frest in
    let nb := find_neighbors p size' dims' index' radius' in
    list_neighbor_bvals p s =
      (let! on := nb in
       Ok (match on with
           | Some nbrs => set_bvec consumed (map (fun t => bval t pos') (records_at (st_code s) nbrs) :: st_bvec s)
           | None => consumed
           end))
    /\ list_neighbor_ivals p s =
      (let! on := nb in
       Ok (match on with
           | Some nbrs => set_ivec consumed (map (fun t => ival t pos') (records_at (st_code s) nbrs) :: st_ivec s)
           | None => consumed
           end))
    /\ list_neighbor_fvals p s =
      (let! on := nb in
       Ok (match on with
           | Some nbrs => set_fvec consumed (map (fun t => fval t pos') (records_at (st_code s) nbrs) :: st_fvec s)
           | None => consumed
           end))
    /\ (forall nbrs, nb = Ok (Some nbrs) ->
          StronglySorted Z.lt nbrs /\ Forall (fun j => 0 <= j < size') nbrs /\
          records_at (st_code s) nbrs =
            map (fun j => nth (Z.to_nat j) (st_code s) (IList [])) (filter (fun j => j <? zlen (st_code s)) nbrs))
    /\ (min32 <= position -> forall t,
          bval t pos' = nth (Z.to_nat pos') (bools_of t) false /\
          ival t pos' = nth (Z.to_nat pos') (ints_of t) 0 /\
          fval t pos' = nth (Z.to_nat pos') (floats_of t) f_zero)
    /\ (FloatIntExact FO -> 1 <= size' -> 1 <= dims' -> sizes_ok size' dims' ->
          nb = Ok (Some (geo_nbrs size' dims' index' radius'))).
Proof. exact @neighbor_vals_spec_lemma. Qed.
Print Assumptions C20i_neighbor_vals_spec.

(* Missing operands, exactly as the code behaves: with fewer than three (for the IDS instruction)
   / four (for the VALS instructions) INTEGERs nothing happens at all (the FLOAT stays); with the
   INTEGERs but an empty FLOAT stack the INTEGERs are consumed — lost — and
   nothing is pushed. *)
Theorem C20i_missing_operands :
  forall (FO : FloatOps) (p : profile) (s : state),
    ((length (st_int s) < 3)%nat -> list_neighbor_ids p s = Ok s)
    /\ ((length (st_int s) < 4)%nat ->
          list_neighbor_bvals p s = Ok s /\ list_neighbor_ivals p s = Ok s /\ list_neighbor_fvals p s = Ok s)
    /\ (forall a b c rest, st_int s = a :: b :: c :: rest -> st_float s = [] ->
          list_neighbor_ids p s = Ok (set_int s rest))
    /\ (forall a b c d rest, st_int s = a :: b :: c :: d :: rest -> st_float s = [] ->
          list_neighbor_bvals p s = Ok (set_int s rest) /\
          list_neighbor_ivals p s = Ok (set_int s rest) /\
          list_neighbor_fvals p s = Ok (set_int s rest)).
Proof. exact @missing_operands_lemma. Qed.
Print Assumptions C20i_missing_operands.

(* An empty topology or zero dimensions after clamping (that is: size <= 0 or
   dims <= 0): find_neighbors returns None whatever the radius; the operands
   are consumed and nothing is pushed. *)
Theorem C20i_guard_none :
  forall (FO : FloatOps) (p : profile) (s : state) (size index dims : Z) (fv : f32) (frest : list f32),
    st_float s = fv :: frest ->
    let size' := Z.max size 0 in
    let index' := Z.max (Z.min (size' - 1) index) 0 in
    let dims' := Z.max (Z.min size' dims) 0 in
    size' = 0 \/ dims' = 0 ->
    (size <= 0 \/ dims <= 0)
    /\ (forall r, find_neighbors p size' dims' index' r = Ok None)
    /\ (forall rest, st_int s = size :: index :: dims :: rest ->
          list_neighbor_ids p s = Ok (set_float (set_int s rest) frest))
    /\ (forall position rest, st_int s = position :: size :: index :: dims :: rest ->
          list_neighbor_bvals p s = Ok (set_float (set_int s rest) frest) /\
          list_neighbor_ivals p s = Ok (set_float (set_int s rest) frest) /\
          list_neighbor_fvals p s = Ok (set_float (set_int s rest) frest)).
Proof. exact @guard_none_lemma. Qed.
Print Assumptions C20i_guard_none.

(* The known finding of the API level (C20_known_large_ndim, key
   topology-ndim-over-64) as the instruction shows it: with 65 or more
   dimensions after clamping (hence 65 or more cells) no neighbourhood is
   computed — the operands are consumed and nothing is pushed, e.g.
   `1.0 70 50 100 LIST.NEIGHBOR*IDS`. *)
Theorem C20i_known_large_ndim :
  forall (FO : FloatOps) (p : profile) (s : state) (size index dims : Z) (rest : list Z) (fv : f32) (frest : list f32),
    st_int s = size :: index :: dims :: rest ->
    st_float s = fv :: frest ->
    size <= max32 ->
    65 <= Z.max (Z.min (Z.max size 0) dims) 0 ->
    list_neighbor_ids p s = Ok (set_float (set_int s rest) frest).
Proof. exact @known_large_ndim_instr_lemma. Qed.
Print Assumptions C20i_known_large_ndim.

(* The registry binds the four names to these bodies: an interpreter step on
   the instruction runs the body on the state without the instruction. *)
Theorem C20i_registered :
  forall (FO : FloatOps) (p : profile) (w : world) (s : state) (E : list item),
    (st_exec s = IInstr (s2l "LIST.NEIGHBOR*IDS"%string) :: E ->
       step p full_registry w s = let! s' := list_neighbor_ids p (set_exec s E) in Ok (false, w, s'))
    /\ (st_exec s = IInstr (s2l "LIST.NEIGHBOR*BVALS"%string) :: E ->
       step p full_registry w s = let! s' := list_neighbor_bvals p (set_exec s E) in Ok (false, w, s'))
    /\ (st_exec s = IInstr (s2l "LIST.NEIGHBOR*IVALS"%string) :: E ->
       step p full_registry w s = let! s' := list_neighbor_ivals p (set_exec s E) in Ok (false, w, s'))
    /\ (st_exec s = IInstr (s2l "LIST.NEIGHBOR*FVALS"%string) :: E ->
       step p full_registry w s = let! s' := list_neighbor_fvals p (set_exec s E) in Ok (false, w, s')).
Proof. exact @registered_lemma. Qed.
Print Assumptions C20i_registered.

(* Non-vacuity, on the crate's own test (list_neighbor_ivals_pushes_sort_values):
   nine cells in two dimensions, centre 0, radius 1, ten one-integer records
   19, 18, ..., 10 (top first) on CODE; with the toy float instance that
   satisfies FloatIntExact.  Every hypothesis of the theorems holds, the
   neighbourhood is [0; 1; 3] and the values read are [19; 18; 16]. *)
Definition nv_code : list item := map (fun z => IList [ILit (LInt z)]) [19; 18; 17; 16; 15; 14; 13; 12; 11; 10].
Definition nv_ids : state := set_float (set_int (set_code empty_state nv_code) [9; 0; 2]) [1].
Definition nv_vals : state := set_float (set_int (set_code empty_state nv_code) [0; 9; 0; 2; 77]) [1].
Example C20i_nonvacuous :
  FloatIntExact toy_ops /\ sizes_ok 9 2 /\ 9 <= max32 /\ min32 <= 0 /\
  st_int nv_ids = [9; 0; 2] /\ st_float nv_ids = [1] /\ st_int nv_vals = [0; 9; 0; 2; 77] /\
  @find_neighbors toy_ops Release 9 2 0 1 = Ok (Some [0; 1; 3]) /\
  @geo_nbrs toy_ops 9 2 0 1 = [0; 1; 3] /\
  @list_neighbor_ids toy_ops Release nv_ids = Ok (set_ivec (set_float (set_int nv_ids []) []) [[0; 1; 3]]) /\
  @list_neighbor_ivals toy_ops Debug nv_vals = Ok (set_ivec (set_float (set_int nv_vals [77]) []) [[19; 18; 16]]) /\
  (* a guard case: dimensions 0 *)
  @list_neighbor_ids toy_ops Debug (set_int nv_ids [9; 0; 0; 5]) = Ok (set_float (set_int nv_ids [5]) []) /\
  (* a neighbour beyond the CODE stack is skipped: 12 cells, centre 11, neighbours 7 10 11 *)
  @list_neighbor_ivals toy_ops Debug (set_int nv_vals [0; 12; 11; 2])
    = Ok (set_ivec (set_float (set_int nv_vals []) []) [[12]]).
Proof.
  split; [exact float_facts_consistent|]. vm_compute. repeat split; discriminate.
Qed.

(* C11 — print then parse reproduces the program.

   Only statements, each closed by [exact] of a lemma from Proofs/Parse*.v, with
   [Print Assumptions] beneath.  Printing is [item_str] (Display for Item) and
   [items_str] (PushStack<Item>::to_string, what CODE.PRINT and the EXEC/CODE
   dumps produce), both in Model/Item.v and validated against Rust by the C08
   and "parse.prim" suites; parsing is the model of C03 (Model/Parser.v, the
   repaired parser).  [FO] is ANY float implementation.

   The class: [printable names t] (Spec/ParseSpec.v, a boolean) — every atom's
   printed text is one token that the lexical rules read back as the same atom.
   C11_printable_int / _bool / _instr / _name say which atoms those are:
   every i32, TRUE/FALSE, every registered instruction that is a plain token,
   every name the parser itself can produce.  Outside the class, and refuted at
   the end of this file: names that lex as something else ("5"), vector
   literals (printed without their INT/FLOAT/BOOL prefix).

   Floats: C11_print_parse_print_floats_partial is PARAMETRIC in the scalar law
       forall x y, fparse (ffmt 3 x) = Some y -> ffmt 3 y = ffmt 3 x
   ("a 3-decimal text that parses prints as itself").  It is a hypothesis of the
   theorem, not proved for binary32 here — hence "_partial".  It is validated
   on the implementation by the check's float sweep stream (format -> parse ->
   format over random and boundary f32 bit patterns, suite parse.prim op 4).

   Side condition [str_fits] as in C03 (fewer than 2^64 characters). *)
From Coq Require Import ZArith List Bool.
From PushModel Require Import Base.Sx Base.Machine Base.F32 Model.Item Model.State Model.Parser Spec.ParseSpec
  Proofs.ParseLex Proofs.ParseTree Proofs.ParseRules Proofs.ParsePrint.
Import ListNotations.
Open Scope Z_scope.

(* ---- the decimal printer and parser of i32 are inverse ---- *)
Theorem C11_i32_roundtrip :
  forall z : Z, in_i32 z = true -> parse_i32 (z_str z) = Some z.
Proof. exact i32_roundtrip. Qed.
Print Assumptions C11_i32_roundtrip.

(* ---- a printable program, printed and parsed onto an empty EXEC stack, is the program ---- *)
Theorem C11_parse_print_tree :
  forall (FO : FloatOps) (names : list str) (p : profile) (t : item) (s : state),
    printable names t = true -> str_fits (item_str t) -> st_exec s = [] ->
    parse_program p names s (item_str t) = Ok (set_exec s [t]).
Proof. exact @parse_print_tree. Qed.
Print Assumptions C11_parse_print_tree.

(* ---- a whole stack of printable programs (CODE.PRINT / to_string of EXEC or CODE) ---- *)
Theorem C11_code_print_roundtrip :
  forall (FO : FloatOps) (names : list str) (p : profile) (l : list item) (s : state),
    forallb (printable names) l = true -> str_fits (items_str l) -> st_exec s = [] ->
    parse_program p names s (items_str l) = Ok (set_exec s l).
Proof. exact @code_print_roundtrip. Qed.
Print Assumptions C11_code_print_roundtrip.

(* ---- with float literals: print . parse . print = print, given the scalar law ---- *)
Theorem C11_print_parse_print_floats_partial :
  forall (FO : FloatOps) (names : list str) (p : profile),
    (forall x y, fparse (ffmt 3 x) = Some y -> ffmt 3 y = ffmt 3 x) ->
    forall (t : item) (s : state),
      printable_f names t = true -> str_fits (item_str t) -> st_exec s = [] ->
      exists t', parse_program p names s (item_str t) = Ok (set_exec s [t']) /\ item_str t' = item_str t.
Proof. exact @print_parse_print_tree. Qed.
Print Assumptions C11_print_parse_print_floats_partial.

Theorem C11_print_parse_print_stack_floats_partial :
  forall (FO : FloatOps) (names : list str) (p : profile),
    (forall x y, fparse (ffmt 3 x) = Some y -> ffmt 3 y = ffmt 3 x) ->
    forall (l : list item) (s : state),
      forallb (printable_f names) l = true -> str_fits (items_str l) -> st_exec s = [] ->
      exists l', parse_program p names s (items_str l) = Ok (set_exec s l') /\ items_str l' = items_str l.
Proof. exact @print_parse_print_stack. Qed.
Print Assumptions C11_print_parse_print_stack_floats_partial.

(* ---- which atoms are printable ---- *)
(* every i32 (as long as no instruction is named like a number) *)
Theorem C11_printable_int :
  forall (FO : FloatOps) (names : list str) (z : Z),
    in_i32 z = true -> is_instr names (z_str z) = false -> printable names (ILit (LInt z)) = true.
Proof. exact @printable_int. Qed.
Print Assumptions C11_printable_int.

(* TRUE and FALSE (as long as they are neither instructions nor floats) *)
Theorem C11_printable_bool :
  forall (FO : FloatOps) (names : list str) (b : bool),
    is_instr names (bool_str b) = false -> fparse (bool_str b) = None ->
    printable names (ILit (LBool b)) = true.
Proof. exact @printable_bool. Qed.
Print Assumptions C11_printable_bool.

(* every registered instruction whose name is one plain token *)
Theorem C11_printable_instr :
  forall (FO : FloatOps) (names : list str) (n : str),
    plain n -> good_tok n -> is_instr names n = true -> printable names (IInstr n) = true.
Proof. exact @printable_instr. Qed.
Print Assumptions C11_printable_instr.

(* every name the parser can produce *)
Theorem C11_printable_name :
  forall (FO : FloatOps) (names : list str) (n : str),
    good_tok n -> classify names n = CItem (IName n) -> printable names (IName n) = true.
Proof. exact @printable_name. Qed.
Print Assumptions C11_printable_name.

(* the printed text of a printable program is the token sequence of its tree
   (the empty list prints as "(  )", two blanks, and still is "(" ")") *)
Theorem C11_print_tokens :
  forall (FO : FloatOps) (names : list str) (t : item),
    printable names t = true -> split_ws (item_str t) = flatten1 (tree_of t).
Proof. intros FO names t. exact (split_ws_item_str (rt_atom names) (printable_good names) t). Qed.
Print Assumptions C11_print_tokens.

(* ---- non-vacuity ---- *)
(* ( 1 (  ) X -7 ( X ) ) with X registered: no token reaches the float parser *)
Definition ex_prog : item := IList [ILit (LInt 1); IList []; IInstr [88]; ILit (LInt (-7)); IList [IInstr [88]]].
Example C11_nonvacuous_printable : forall (FO : FloatOps), printable [[88]] ex_prog = true.
Proof. intros. reflexivity. Qed.
Example C11_nonvacuous_text : forall (FO : FloatOps),
  item_str ex_prog = [40; 32; 49; 32; 40; 32; 32; 41; 32; 88; 32; 45; 55; 32; 40; 32; 88; 32; 41; 32; 41].
Proof. intros. reflexivity. Qed.
Example C11_nonvacuous_roundtrip : forall (FO : FloatOps) (p : profile),
  parse_program p [[88]] empty_state (item_str ex_prog) = Ok (set_exec empty_state [ex_prog]).
Proof. intros. reflexivity. Qed.

(* the hypotheses involving floats are satisfiable: a float implementation that
   prints every float as 1.000 and parses only that text *)
Definition toy_fmt : str := [49; 46; 48; 48; 48].
Definition toy_ops : FloatOps := {|
  fadd := fun a _ => a; fsub := fun a _ => a; fmul := fun a _ => a; fdiv := fun a _ => a; frem := fun a _ => a;
  fcmp := fun _ _ => None; f_of_i32 := fun _ => 0; f_to_i32 := fun _ => 0; f_of_usize := fun _ => 0;
  f_to_usize := fun _ => 0; fsqrt := fun a => a; fceil := fun a => a; fround := fun a => a; fabs := fun a => a;
  fneg := fun a => a; f_is_nan := fun _ => false; f_is_finite := fun _ => true;
  ffmt := fun _ _ => toy_fmt;
  fparse := fun s => if str_eqb s toy_fmt then Some 7 else None;
  flibm := fun _ _ => None |}.
Example C11_nonvacuous_float_law :
  (forall x y, @fparse toy_ops (@ffmt toy_ops 3 x) = Some y -> @ffmt toy_ops 3 y = @ffmt toy_ops 3 x) /\
  @printable_f toy_ops [] (IList [ILit (LFloat 5); ILit (LBool true); IName [97]]) = true /\
  @printable toy_ops [] (IList [ILit (LBool false); IName [97; 46; 98]]) = true.
Proof. split; [reflexivity|split; reflexivity]. Qed.

(* ---- outside the class ---- *)
(* a name that lexes as a number comes back as a number *)
Example C11_name_like_number_refuted : forall (FO : FloatOps) (p : profile),
  printable [] (IName [53]) = false /\
  parse_program p [] empty_state (item_str (IName [53])) = Ok (set_exec empty_state [ILit (LInt 5)]).
Proof. intros. split; reflexivity. Qed.
(* an integer whose text is a registered instruction name comes back as that instruction *)
Example C11_int_like_instruction_refuted : forall (FO : FloatOps) (p : profile),
  printable [[53]] (ILit (LInt 5)) = false /\
  parse_program p [[53]] empty_state (item_str (ILit (LInt 5))) = Ok (set_exec empty_state [IInstr [53]]).
Proof. intros. split; reflexivity. Qed.
(* vector literals print without their prefix: "[1,2]" is not a vector literal *)
Example C11_vector_literal_refuted :
  @printable toy_ops [] (ILit (LIntVec [1; 2])) = false /\
  @parse_program toy_ops Debug [] empty_state (@item_str toy_ops (ILit (LIntVec [1; 2]))) =
  Ok (set_exec empty_state [IName [91; 49; 44; 50; 93]]).
Proof. split; reflexivity. Qed.

(* C10 — missing operands never fabricate results; every instruction stays inside its
   documented footprint.  Statements only; proofs in Proofs/FrameProofs*.v, Unfired.v,
   StepFrame.v, FrameDec.v.  The specification (one line per instruction NAME) is
   Spec/Footprint.v: fp_all (fields an instruction may write), nd_all (operands it needs). *)
From Coq Require Import ZArith String List Bool.
From PushModel Require Import Base.Sx Base.Machine Base.ListOps Base.F32 Model.Item Model.GraphT Model.State
  Model.InstrBase Model.IScalar Model.ICode Model.Registry Model.Interp
  Model.IVector Model.RegistryVec Model.IList Model.IIo Model.RegistryListIo Model.IGraph Model.RegistryGraph
  Model.INeighbor Model.RegistryNbr Model.RandomGen Model.IRand Model.RegistryRand Model.RegistryAll Spec.Footprint
  Proofs.Frame Proofs.FrameProofs Proofs.FrameProofs2 Proofs.CfgStable Proofs.NameProofs Proofs.Unfired
  Proofs.Guards Proofs.StepFrame Proofs.FrameDec.
Import ListNotations.
Open Scope string_scope.

(* When an instruction applies (or not), only its documented operand and result stacks change:
   every registered name has a footprint line, and its body never writes outside it. *)
Theorem C10_frame : forall (FO : FloatOps) (n : string) (f : sem),
  In (n, f) full_table ->
  exists m, fp_lookup fp_all n = Some m /\
            forall p w s w' s', f p w s = Ok (w', s') -> same_outside m s s'.
Proof.
  intros FO n f Hin. pose proof all_framed as AF. unfold table_framed in AF. rewrite Forall_forall in AF.
  destruct (AF _ Hin) as (m & L & F). exists m. split; [exact L|exact F].
Qed.
Print Assumptions C10_frame.

(* When an instruction lacks a needed operand it may at most have consumed operands it had
   already taken: every typed stack of the result is the old one with some top items removed,
   and bindings, flags, graphs, INDEX stack, queues, configuration — and the node counter —
   are unchanged. *)
Theorem C10_unfired_only_pops : forall (FO : FloatOps) (n : string) (f : sem),
  In (n, f) full_table ->
  forall p w s w' s', lacking n s = true -> f p w s = Ok (w', s') -> only_pops s s' /\ w' = w.
Proof. exact @unfired_only_pops. Qed.
Print Assumptions C10_unfired_only_pops.

(* The same when every operand is there but the guard on the operand values fails (gd_all:
   division by zero, sizes that are not positive, unbound names, ids and positions out of range). *)
Theorem C10_guard_fails_only_pops : forall (FO : FloatOps) (n : string) (f : sem),
  In (n, f) full_table ->
  forall p w s w' s', guard_fails n s = true -> f p w s = Ok (w', s') -> only_pops s s' /\ w' = w.
Proof. exact @guard_only_pops. Qed.
Print Assumptions C10_guard_fails_only_pops.

(* One interpreter step changes EXEC plus the footprint of the item it executes. *)
Theorem C10_step_frame : forall (FO : FloatOps) p w s t r fin w1 s1,
  st_exec s = t :: r -> step p full_registry w s = Ok (fin, w1, s1) ->
  exists m, step_fp fp_all t m /\ same_outside (also_exec m) s s1.
Proof. exact @step_frame. Qed.
Print Assumptions C10_step_frame.

(* No instruction and no interpreter step writes the configuration. *)
Theorem C10_config_never_written : forall (FO : FloatOps),
  (forall n f, lookup full_registry n = Some f ->
     forall p w s w' s', f p w s = Ok (w', s') -> st_cfg s' = st_cfg s) /\
  (forall p w s fin w1 s1, step p full_registry w s = Ok (fin, w1, s1) -> st_cfg s1 = st_cfg s).
Proof.
  intros FO. split.
  - exact full_cfg_stable.
  - intros p. exact (step_cfg_stable p full_registry full_cfg_stable).
Qed.
Print Assumptions C10_config_never_written.

(* The quote flag is written by NAME.QUOTE only (and cleared by the identifier it quotes, see
   C10_step_frame): every other instruction leaves it as it is. *)
Theorem C10_quote_flag_only_by_name_quote : forall (FO : FloatOps) (n : string) (f : sem),
  In (n, f) full_table -> n <> "NAME.QUOTE" ->
  forall p w s w' s', f p w s = Ok (w', s') -> st_quote s' = st_quote s.
Proof.
  intros FO n f Hin Hn p w s w' s' E.
  destruct (C10_frame FO n f Hin) as (m & L & F).
  assert (Q : fp_quote_only_by_quote fp_all) by (apply fp_quote_only_by_quote_b; vm_compute; reflexivity).
  unfold fp_quote_only_by_quote in Q. rewrite Forall_forall in Q.
  destruct (Q _ (fp_lookup_in_pair _ _ _ L)) as [K|K]; cbn [fst snd] in K; [contradiction|].
  specialize (F p w s w' s' E). unfold same_outside in F. tauto.
Qed.
Print Assumptions C10_quote_flag_only_by_name_quote.

(* The boolean functions evaluated by the checker `frame.check` decide the Props. *)
Theorem C10_checker_sound :
  (forall m s s', same_outside_b m s s' = true <-> same_outside m s s') /\
  (forall s s', only_pops_b s s' = true <-> only_pops s s') /\
  (forall m u b a, frame_verdict m u b a = true <-> same_outside m b a /\ (u = true -> only_pops b a)).
Proof. split; [exact same_outside_b_ok|split; [exact only_pops_b_ok|exact frame_verdict_ok]]. Qed.
Print Assumptions C10_checker_sound.

(* ---- non-vacuity: a fired and an unfired state for one instruction of each family ---- *)
Definition w0 : world := {| w_next_node := 7; w_tape := [] |}.
Definition busy : state :=            (* bystanders everywhere *)
  {| st_bool := [true]; st_code := [IList []]; st_exec := [ILit (LInt 5)]; st_float := [0%Z]; st_index := [(1, 3)%Z];
     st_int := []; st_name := [[65%Z]]; st_bvec := [[true]]; st_fvec := [[0%Z]]; st_ivec := [];
     st_input := [([1%Z], [true])]; st_output := [([2%Z], [false])]; st_graph := [];
     st_bind := [([75%Z], ILit (LInt 5))]; st_cfg := default_cfg; st_quote := true; st_send := false |}.

Open Scope Z_scope.
(* core: INTEGER.+ *)
Example C10_nonvacuous_core : forall (FO : FloatOps),
  lacking "INTEGER.+" (set_int busy [4]) = true /\
  pure integer_add Debug w0 (set_int busy [4]) = Ok (w0, set_int busy [4]) /\
  lacking "INTEGER.+" (set_int busy [4; 3]) = false /\
  pure integer_add Debug w0 (set_int busy [4; 3]) = Ok (w0, set_int busy [7]).
Proof. intro FO. repeat split; reflexivity. Qed.
(* an operand already taken is gone, nothing else moves: CODE.IF without its BOOLEAN *)
Example C10_nonvacuous_partial_pop : forall (FO : FloatOps),
  let s := set_bool (set_code busy [ILit (LInt 1); ILit (LInt 2); ILit (LInt 3)]) [] in
  lacking "CODE.IF" s = true /\ pure code_if Debug w0 s = Ok (w0, set_code s [ILit (LInt 3)]).
Proof. intro FO. split; reflexivity. Qed.
(* vectors: INTVECTOR.+ without its offset loses both vectors, pushes nothing *)
Example C10_nonvacuous_vec : forall (FO : FloatOps),
  let s := set_ivec busy [[1; 2]; [10; 20]; [9]] in
  lacking "INTVECTOR.+" s = true /\ pure ivec_add Debug w0 s = Ok (w0, set_ivec s [[9]]) /\
  lacking "INTVECTOR.+" (set_int s [0]) = false /\
  pure ivec_add Debug w0 (set_int s [0]) = Ok (w0, set_ivec s [[11; 22]; [9]]).
Proof. intro FO. repeat split; reflexivity. Qed.
(* LIST.ADD: no id vector, nothing happens; with ids (INTEGER, BOOLEAN) a record is built *)
Example C10_nonvacuous_list : forall (FO : FloatOps),
  lacking "LIST.ADD" busy = true /\ pure list_add Debug w0 busy = Ok (w0, busy) /\
  lacking "LIST.ADD" (set_ivec busy [[1]]) = false /\
  pure list_add Debug w0 (set_ivec busy [[1]]) = Ok (w0, set_code (set_bool busy []) [IList [ILit (LBool true)]; IList []]).
Proof. intro FO. repeat split; reflexivity. Qed.
(* OUTPUT.WRITE: the body is taken first and is lost without a header *)
Example C10_nonvacuous_io : forall (FO : FloatOps),
  lacking "OUTPUT.WRITE" busy = true /\ pure output_write Debug w0 busy = Ok (w0, set_bvec busy []) /\
  lacking "OUTPUT.WRITE" (set_ivec busy [[8]]) = false /\
  pure output_write Debug w0 (set_ivec busy [[8]])
    = Ok (w0, set_output (set_bvec busy []) [([2], [false]); ([8], [true])]).
Proof. intro FO. repeat split; reflexivity. Qed.
(* GRAPH.NODE*ADD: without a graph the node counter is not advanced; with one it is *)
Example C10_nonvacuous_graph : forall (FO : FloatOps),
  lacking "GRAPH.NODE*ADD" (set_int busy [3]) = true /\
  graph_node_add Debug w0 (set_int busy [3]) = Ok (w0, set_int busy [3]) /\
  lacking "GRAPH.NODE*ADD" (set_graph (set_int busy [3]) [g_new]) = false /\
  exists g, graph_node_add Debug w0 (set_graph (set_int busy [3]) [g_new])
            = Ok ({| w_next_node := 8; w_tape := [] |}, set_graph (set_int busy [7]) [g]).
Proof. intro FO. repeat split; try reflexivity. eexists. reflexivity. Qed.

(* a failing guard: INTEGER./ by zero consumes both operands and pushes nothing;
   LIST.NEIGHBOR*IDS and INTVECTOR.RAND without their operands *)
Example C10_nonvacuous_guard : forall (FO : FloatOps),
  lacking "INTEGER./" (set_int busy [0; 6]) = false /\ guard_fails "INTEGER./" (set_int busy [0; 6]) = true /\
  pure integer_div Debug w0 (set_int busy [0; 6]) = Ok (w0, busy) /\
  guard_fails "INTEGER./" (set_int busy [2; 6]) = false /\
  pure integer_div Debug w0 (set_int busy [2; 6]) = Ok (w0, set_int busy [3]).
Proof. intro FO. repeat split; reflexivity. Qed.
Example C10_nonvacuous_nbr_rand : forall (FO : FloatOps),
  lacking "LIST.NEIGHBOR*IDS" (set_int busy [9; 4]) = true /\
  purep list_neighbor_ids Debug w0 (set_int busy [9; 4]) = Ok (w0, set_int busy [9; 4]) /\
  lacking "LIST.NEIGHBOR*IDS" (set_float (set_int busy [9; 4; 2]) []) = true /\
  purep list_neighbor_ids Debug w0 (set_float (set_int busy [9; 4; 2]) []) = Ok (w0, set_float busy []) /\
  lacking "INTVECTOR.RAND" (set_int busy [3; 5]) = true /\
  int_vector_rand Debug {| w_next_node := 7; w_tape := [1; 2; 3] |} (set_int busy [3; 5])
    = Ok ({| w_next_node := 7; w_tape := [1; 2; 3] |}, set_int busy [3; 5]).
Proof. intro FO. repeat split; reflexivity. Qed.

(* the documented exception: INTVECTOR.SET*INSERT creates a vector out of nothing, which is why
   its line in nd_ivec says it needs nothing (with `needs INTEGER 1` the theorem would be false) *)
Example C10_set_insert_exception : forall (FO : FloatOps),
  needs "INTVECTOR.SET*INSERT" = [] /\
  pure ivec_set_insert Debug w0 busy = Ok (w0, set_ivec busy [[]]) /\
  ~ only_pops busy (set_ivec busy [[]]).
Proof.
  intro FO. repeat split; try reflexivity.
  intros H. apply only_pops_b_ok in H. vm_compute in H. discriminate H.
Qed.

(* the checker's verdict on these states *)
Example C10_checker_examples :
  frame_verdict (W [FInt]) (lacking "INTEGER.+" (set_int busy [4])) (set_int busy [4]) (set_int busy [4]) = true /\
  frame_verdict (W [FInt]) (lacking "INTEGER.+" (set_int busy [4])) (set_int busy [4]) (set_int busy [4; 0]) = false /\  (* pushed although lacking *)
  frame_verdict (W [FInt]) (lacking "INTEGER.+" (set_int busy [4; 3])) (set_int busy [4; 3]) (set_bool (set_int busy [7]) []) = false. (* wrote BOOLEAN *)
Proof. repeat split; reflexivity. Qed.

(* ---- the pinned tree (before the `fix:` commits 3e20bea and 3db4012) ---- *)
(* CODE.ATOM compared the top CODE item with an integer / an instruction by type and pushed the
   answer unconditionally: FALSE was pushed although the CODE stack was empty *)
Definition code_atom_pinned : instr := fun s =>
  Ok (push_bool s (match st_code s with ILit (LInt _) :: _ => true | IInstr _ :: _ => true | _ => false end)).
Example C10_code_atom_pinned_refuted : forall (FO : FloatOps),
  let s := set_code busy [] in
  lacking "CODE.ATOM" s = true /\
  pure code_atom_pinned Debug w0 s = Ok (w0, set_bool s [false; true]) /\ ~ only_pops s (set_bool s [false; true]) /\
  pure code_atom Debug w0 s = Ok (w0, s).
Proof.
  intro FO. repeat split; try reflexivity.
  intros H. apply only_pops_b_ok in H. vm_compute in H. discriminate H.
Qed.
(* FLOATVECTOR.SUM was bound to the body of FLOATVECTOR.STACKDEPTH: it wrote INTEGER, outside the
   documented footprint { FLOAT }; BOOLVECTOR.ROTATE was bound to BOOLVECTOR.RAND (no deterministic body) *)
Example C10_registry_pinned_refuted : forall (FO : FloatOps),
  let s := set_fvec busy [[f_one; f_one]] in
  fp_lookup fp_all "FLOATVECTOR.SUM" = Some (W [FFloat]) /\
  option_map (fun e => snd e Debug w0 s) (List.find (fun e => String.eqb (fst e) "FLOATVECTOR.SUM") tbl_fvec_pinned)
    = Some (Ok (w0, set_int s [1])) /\
  ~ same_outside (W [FFloat]) s (set_int s [1]).
Proof.
  intro FO. repeat split; try reflexivity.
  intros H. apply same_outside_b_ok in H. vm_compute in H. discriminate H.
Qed.

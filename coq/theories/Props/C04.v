(* C04 — scalar instructions compute what their documentation says.  Statements only. *)
From Coq Require Import ZArith String List Bool.
From PushModel Require Import Base.Sx Base.Machine Base.F32 Model.Item Model.GraphT Model.State
  Model.InstrBase Model.IScalar Model.Registry Model.Interp Model.RegistryAll Spec.ScalarSpec Proofs.ScalarProofs.
Import ListNotations.
Open Scope Z_scope.

(* Every scalar instruction NAME of the registry is bound to a function that equals the reference
   signature on EVERY state: operands consumed exactly when all are present (second item = left
   operand), documented result on the documented stack, zero divisor -> no result, nothing else
   changes (apply_sig touches only the operand stack and the result stack). For every FloatOps,
   i.e. whatever the float arithmetic and libm are. *)
Theorem C04_scalar_correct : forall (FO : FloatOps),
  Forall (fun e => agrees (fst e) (snd e)) scalar_table.
Proof. exact @scalar_correct. Qed.
Print Assumptions C04_scalar_correct.

(* The two conversions whose pinned behaviour contradicts their doc comment (known finding):
   the model equals the PINNED signature ... *)
Theorem C04_known_class_is_pinned_behaviour : forall (FO : FloatOps),
  Forall (fun e => agrees (fst e) (snd e)) known_table.
Proof. exact @known_correct. Qed.
Print Assumptions C04_known_class_is_pinned_behaviour.

(* ... which differs from the documented one: BOOLEAN.FROMINTEGER on 0 pushes TRUE and keeps the 0 *)
Theorem C04_from_integer_refuted : forall (FO : FloatOps),
  let s := set_int empty_state [0] in
  boolean_from_integer s <> apply_sig documented_from_integer s.
Proof. intros FO s. cbv. discriminate. Qed.
Print Assumptions C04_from_integer_refuted.

(* missing operands: nothing happens *)
Theorem C04_missing_operands_noop : forall g s,
  (length (vals (s_ty g) s) < s_n g)%nat -> apply_sig g s = Ok s.
Proof. exact apply_sig_missing. Qed.
Print Assumptions C04_missing_operands_noop.

(* the outcome does not depend on the build profile: the registered semantics ignores it *)
Theorem C04_profile_independent : forall (FO : FloatOps) n g, In (n, g) (scalar_table ++ known_table) ->
  exists f, lookup full_registry (s2l n) = Some f /\ forall w s, f Debug w s = f Release w s.
Proof.
  intros FO n g H.
  assert (A : agrees n g).
  { apply in_app_or in H as [H|H].
    - exact (proj1 (Forall_forall _ _) scalar_correct (n, g) H).
    - exact (proj1 (Forall_forall _ _) known_correct (n, g) H). }
  destruct A as (f & L & _). exists (pure f). split; [exact L|reflexivity].
Qed.
Print Assumptions C04_profile_independent.

(* i32 results stay in type *)
Theorem C04_integer_results_in_type : forall z, in_i32 (wrap32 z) = true.
Proof. exact wrap32_in. Qed.
Print Assumptions C04_integer_results_in_type.

Example C04_nonvacuous : forall (FO : FloatOps),
  integer_sub (set_int empty_state [3; 10; 7]) = Ok (set_int empty_state [7; 7]).
Proof. reflexivity. Qed.

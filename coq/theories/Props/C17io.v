(* C17 (INPUT / OUTPUT part) — the instructions over the two message queues.
   Only statements, each closed by [exact] of a lemma of Proofs/IoProofs.v.
   Vocabulary (Spec/IoSpec.v): [io_op] the eight registered instructions,
   [io_spec] the abstract machine that reads message number k of the ORIGINAL
   input sequence (k = messages consumed so far) and logs the messages offered
   to the output queue, [io_concrete] the state it stands for
   (input = skipn k q0, output = firstn 3 log). *)
From Coq Require Import String ZArith List Bool.
From PushModel Require Import Base.Sx Base.Machine Base.ListOps Base.F32 Model.Item Model.GraphT Model.State
  Model.InstrBase Model.Registry Model.Interp Model.IIo Model.RegistryListIo Model.RegistryAll
  Spec.IoSpec Proofs.IoProofs.
Import ListNotations.
Open Scope Z_scope.
Open Scope list_scope.

(* For every input queue content, every output queue content and EVERY sequence
   of the eight INPUT / OUTPUT instructions on top of EXEC, the interpreter
   (real step function, real registry) computes exactly what the abstract
   machine computes: INPUT.READ / INPUT.GET see message number k of the original
   sequence where k is the number of INPUT.NEXT executed so far (the oldest
   unconsumed message), INPUT.NEXT consumes exactly that message,
   INPUT.AVAILABLE / STACKDEPTH report the unconsumed rest; the input queue ends
   as the original sequence without its first k messages; the output queue is
   the first three messages of the log (program order). *)
Theorem C17_io_fifo :
  forall (FO : FloatOps) (p : profile) (w : world) (ops : list io_op) (s : state) (E : list item),
    st_exec s = map (fun o => IInstr (s2l (io_name o))) ops ++ E ->
    zlen (st_input s) <= INPUT_CAP -> zlen (st_output s) <= OUTPUT_CAP ->
    let q0 := st_input s in
    let a := io_spec q0 ops (io_init (set_exec s E)) in
    steps p full_registry (length ops) w s = Ok (false, w, io_concrete q0 a) /\
    io_k a = count_next ops /\
    st_input (io_concrete q0 a) = skipn (count_next ops) q0 /\
    st_output (io_concrete q0 a) = firstn 3 (io_log a).
Proof. exact (@io_fifo_lemma). Qed.
Print Assumptions C17_io_fifo.

(* The same, one instruction body at a time (what the sequence theorem iterates). *)
Theorem C17_io_step_refines :
  forall (FO : FloatOps) (q0 : list msg) (a : io_st) (o : io_op),
    zlen q0 <= INPUT_CAP ->
    io_instr o (io_concrete q0 a) = Ok (io_concrete q0 (io_spec_step q0 a o)).
Proof. exact (fun _ : FloatOps => io_step_refines). Qed.
Print Assumptions C17_io_step_refines.

(* OUTPUT.WRITE enqueues at the newest end, in program order; it is IGNORED when
   three messages are queued (PushBuffer::push on a full buffer; the operands are
   consumed all the same); OUTPUT.FLUSH empties the queue. *)
Theorem C17_output_program_order :
  forall (FO : FloatOps),
  (forall (s : state) body br header hr,
      st_bvec s = body :: br -> st_ivec s = header :: hr ->
      output_write s =
      Ok (set_output (set_ivec (set_bvec s br) hr)
            (if zlen (st_output s) <? OUTPUT_CAP then st_output s ++ [(header, body)] else st_output s))) /\
  (forall s : state,
      (st_bvec s = [] -> output_write s = Ok s) /\
      (forall body br, st_bvec s = body :: br -> st_ivec s = [] -> output_write s = Ok (set_bvec s br))) /\
  (forall s : state, output_flush s = Ok (set_output s [])) /\
  (forall (ms : list msg) (s : state) br hr,
      st_bvec s = map snd ms ++ br -> st_ivec s = map fst ms ++ hr ->
      zlen (st_output s) <= OUTPUT_CAP ->
      run_instrs (repeat output_write (length ms)) s =
      Ok (set_output (set_ivec (set_bvec s br) hr) (firstn 3 (st_output s ++ ms)))).
Proof. exact (fun _ : FloatOps => output_program_order_full). Qed.
Print Assumptions C17_output_program_order.

(* ---------------- non-vacuity ---------------- *)
Definition ex_io : state :=
  set_int (set_output (set_input empty_state [([1], [true; false]); ([], []); ([2; 3], [false])]) [([9], [])]) [1; 0; 5].

(* READ, GET 1, NEXT, GET (empty body: nothing pushed), READ, WRITE, NEXT, READ, WRITE, WRITE, DEPTH, NEXT, AVAILABLE *)
Example C17_nonvacuous_fifo :
  forall FO : FloatOps,
    let ops := [IRead; IGet; INext; IGet; IRead; OWrite; INext; IRead; OWrite; OWrite; ODepth; INext; IAvail] in
    let a := io_spec (st_input ex_io) ops (io_init ex_io) in
    zlen (st_input ex_io) <= INPUT_CAP /\ zlen (st_output ex_io) <= OUTPUT_CAP /\
    io_k a = 3%nat /\
    io_log a = [([9], []); ([], []); ([2; 3], [false]); ([1], [true; false])] /\
    st_output (io_concrete (st_input ex_io) a) = [([9], []); ([], []); ([2; 3], [false])] /\
    st_input (io_concrete (st_input ex_io) a) = [] /\
    st_bool (io_concrete (st_input ex_io) a) = [false; false] /\
    st_int (io_concrete (st_input ex_io) a) = [3; 5].
Proof. intro FO. cbv. repeat split; discriminate. Qed.

(* History: on the pinned tree INPUT.GET indexed the body of the oldest message
   unconditionally; with an empty body that is index 0 of an empty Vec: a panic
   (repaired by a fix: commit: nothing is pushed). *)
Example C17_input_get_pinned_refuted :
  let s := set_int (set_input empty_state [([], [])]) [0] in
  input_get_pinned s = Panic /\ input_get s = Ok (set_input empty_state [([], [])]).
Proof. split; reflexivity. Qed.

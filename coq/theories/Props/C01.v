(* C01 — executing any Push program never panics.

   Statements only; every theorem is closed by [exact] of a lemma of
   Proofs/NoPanic*.v.  All theorems are for every program, every state, both
   build profiles, every outcome of the random number generator (the tape of
   the world) and every clock; [FloatOps] is universally quantified.

   [wf_state s] (Proofs/NoPanicBase.v) is the TYPING of the state, nothing more:
   every value the Rust code keeps in an i32 (INTEGER stack, INTVECTOR
   elements, integer literals anywhere inside CODE / EXEC / bound items,
   message headers, graph node states, the two INTEGER.RAND bounds of the
   configuration) is an i32, and the two fields of every INDEX are usize
   values.  No bound on any length, no capacity, no graph invariant: the
   instruction bodies are total without them (e.g. `len as i32` wraps to a
   value that still clamps an index into the vector).

   [envelope s] is the only resource bound a modelled instruction body depends
   on: the top CODE item has at most i32::MAX points (its `size as i32` is the
   divisor of CODE.EXTRACT and, through the shallow size, of CODE.NTH).  Every
   other instruction is proved total WITHOUT the envelope
   (C01_instr_no_panic_outside_envelope).  The envelope is not an invariant
   (CODE.APPEND doubles sizes): k steps and the run loop are stated for
   executions that stay inside it ([stays_in_envelope]: every state visited
   before the k-th step satisfies [envelope]); C15 is about the envelope itself.

   Two facts about floats that the law-free [FloatOps] interface cannot supply
   are hypotheses:
     [fo_typed] : `x as i32` yields an i32 (needed only for the invariant:
                  INTEGER.FROMFLOAT pushes that value);
     [fo_nbits] : BOOLVECTOR.RAND's number of bits to flip,
                  trunc(round(100 * min(s, 1-s)) / 100 * size), lies in
                  0..=size and below i32::MAX for 0 <= s <= 1 (the hypothesis
                  [nbits_sane] of the C13 theorems) — with an arbitrary
                  FloatOps the loop bound `num_active_bits + 1` would overflow.
   Not hypotheses: EXEC.CMD's child process is outside the model (its operand
   handling is inside); native stack depth and allocation failure cannot be
   expressed in Gallina (checks/C01.py, stream (d)). *)
From Coq Require Import ZArith String List Bool.
From PushModel Require Import Base.Sx Base.Machine Base.F32 Model.Item Model.GraphT Model.State Model.InstrBase
  Model.Registry Model.Interp Model.RandomGen Model.RegistryAll Spec.RandSpec Proofs.RandVec
  Proofs.NoPanicBase Proofs.NoPanicRand Proofs.NoPanic.
Import ListNotations.
Open Scope Z_scope.

(* ---- single instructions ---- *)

(* no registered instruction panics on a well-typed state inside the envelope *)
Theorem C01_instr_no_panic :
  forall (FO : FloatOps), fo_nbits ->
  forall (n : string) (f : sem), In (n, f) full_table ->
  forall (p : profile) (w : world) (s : state), wf_state s -> envelope s -> f p w s <> Panic.
Proof.
  exact (fun FO NB n f I => sem_safe_no_panic f (table_entry_safe NB n f I)).
Qed.
Print Assumptions C01_instr_no_panic.

(* ... and all of them except CODE.EXTRACT and CODE.NTH do not even need the envelope *)
Theorem C01_instr_no_panic_outside_envelope :
  forall (FO : FloatOps), fo_nbits ->
  forall (n : string) (f : sem), In (n, f) full_table -> n <> "CODE.EXTRACT"%string -> n <> "CODE.NTH"%string ->
  forall (p : profile) (w : world) (s : state), wf_state s -> f p w s <> Panic.
Proof. exact @instr_no_panic_outside_envelope. Qed.
Print Assumptions C01_instr_no_panic_outside_envelope.

(* the deterministic families (everything but the nine RAND instructions): no float fact needed *)
Theorem C01_base_instr_no_panic :
  forall (FO : FloatOps) (n : string) (f : sem), In (n, f) base_table ->
  forall (p : profile) (w : world) (s : state), wf_state s -> envelope s -> f p w s <> Panic.
Proof.
  exact (fun FO n f I => sem_safe_no_panic f (base_entry_safe n f I)).
Qed.
Print Assumptions C01_base_instr_no_panic.

(* the invariant: a normal return is well-typed again (every result is "in-type") *)
Theorem C01_wf_preserved :
  forall (FO : FloatOps), fo_nbits -> fo_typed ->
  forall (n : string) (f : sem), In (n, f) full_table ->
  forall (p : profile) (w : world) (s : state) (w' : world) (s' : state),
    wf_state s -> envelope s -> f p w s = Ok (w', s') -> wf_state s'.
Proof.
  exact (fun FO NB FT n f I => sem_safe_preserves f (table_entry_safe NB n f I) FT).
Qed.
Print Assumptions C01_wf_preserved.

(* ---- the interpreter ---- *)

(* one step: literals, names (bound or not, quoted or not), lists, instructions *)
Theorem C01_step_no_panic :
  forall (FO : FloatOps), fo_nbits ->
  forall (p : profile) (w : world) (s : state), wf_state s -> envelope s ->
    step p full_registry w s <> Panic.
Proof. exact @step_no_panic. Qed.
Print Assumptions C01_step_no_panic.

Theorem C01_step_wf_preserved :
  forall (FO : FloatOps), fo_nbits -> fo_typed ->
  forall (p : profile) (w : world) (s : state) (fin : bool) (w' : world) (s' : state),
    wf_state s -> envelope s -> step p full_registry w s = Ok (fin, w', s') -> wf_state s'.
Proof. exact @step_wf_preserved. Qed.
Print Assumptions C01_step_wf_preserved.

(* k single steps, for every k *)
Theorem C01_steps_no_panic :
  forall (FO : FloatOps), fo_nbits -> fo_typed ->
  forall (p : profile) (k : nat) (w : world) (s : state),
    wf_state s -> stays_in_envelope p k w s -> steps p full_registry k w s <> Panic.
Proof. exact @steps_no_panic. Qed.
Print Assumptions C01_steps_no_panic.

(* the bounded run loop, for every clock and every limit in the configuration *)
Theorem C01_run_no_panic :
  forall (FO : FloatOps), fo_nbits -> fo_typed ->
  forall (p : profile) (clock : Z -> Z) (w : world) (s : state),
    wf_state s -> stays_in_envelope p (run_fuel (copy_to_code s)) w (copy_to_code s) ->
    run p full_registry clock w s <> Panic.
Proof. exact @run_no_panic. Qed.
Print Assumptions C01_run_no_panic.

(* a program none of whose visited states holds a CODE item at all is inside the envelope
   trivially; in general the hypothesis follows from any bound on the total number of points *)
Theorem C01_envelope_from_size_bound :
  forall (s : state), (forall t, In t (st_code s) -> size t <= max32) -> envelope s.
Proof. exact envelope_from_size_bound. Qed.
Print Assumptions C01_envelope_from_size_bound.

(* ---- non-vacuity ---- *)
(* the two float facts hold together for some FloatOps (a law-free toy instance; for IEEE
   binary32 they are properties of `as i32` and of a product of a share <= 1/2 with the size) *)
Definition C01_toy_ops : FloatOps := {|
  fadd := fun a _ => a; fsub := fun a _ => a; fmul := fun _ _ => 0; fdiv := fun a _ => a; frem := fun a _ => a;
  fcmp := fun _ _ => None; f_of_i32 := fun _ => 0; f_to_i32 := fun _ => 0; f_of_usize := fun _ => 0;
  f_to_usize := fun _ => 0; fsqrt := fun a => a; fceil := fun a => a; fround := fun a => a; fabs := fun a => a;
  fneg := fun a => a; f_is_nan := fun _ => false; f_is_finite := fun _ => true; ffmt := fun _ _ => [];
  fparse := fun _ => None; flibm := fun _ _ => None |}.
Example C01_float_facts_satisfiable : @fo_typed C01_toy_ops /\ @fo_nbits C01_toy_ops.
Proof.
  split; [intros x; reflexivity|].
  intros size sp _ H. unfold bv_params_ok in H. apply andb_prop in H as [H _]. apply andb_prop in H as [H _].
  apply andb_prop in H as [H _]. unfold nbits_sane, nbits. cbn [f_to_i32 C01_toy_ops].
  apply Z.leb_le in H. rewrite (proj2 (Z.leb_le 0 size) H). reflexivity.
Qed.

(* the factorial program of the README with 4 on the INTEGER stack, a record on CODE, a binding:
   well-typed, inside the envelope, and the hypothesis of the k-step theorem holds for k = 1 *)
Definition C01_fact_state : state :=
  let i n := IInstr (s2l n) in
  set_bind
    (set_code
      (set_int
        (set_exec empty_state
          [IList [i "CODE.QUOTE"; IList [i "INTEGER.POP"; ILit (LInt 1)];
                  i "CODE.QUOTE"; IList [i "CODE.DUP"; i "INTEGER.DUP"; ILit (LInt 1); i "INTEGER.-"; i "CODE.DO"; i "INTEGER.*"];
                  i "INTEGER.DUP"; ILit (LInt 2); i "INTEGER.<"; i "CODE.IF"]])
        [4; 2147483647; -2147483648])
      [IList [ILit (LIntVec [1; -5]); ILit (LIndex 0 3); IName (s2l "X")]])
    [(s2l "X", ILit (LInt 7))].
Example C01_nonvacuous :
  wf_state C01_fact_state /\ envelope C01_fact_state /\
  stays_in_envelope (FO := C01_toy_ops) Debug 1 {| w_next_node := 1; w_tape := [] |} C01_fact_state.
Proof.
  split; [|split].
  - constructor; cbn; repeat constructor.
  - vm_compute. discriminate.
  - intros j w' s' Hj E. destruct j as [|j]; [|inversion Hj as [|? Hj']; inversion Hj'].
    cbn [steps] in E. inversion E; subst. vm_compute. discriminate.
Qed.
(* the invariant is not trivially true: an out-of-range INTEGER is rejected *)
Example C01_wf_rejects : ~ wf_state (set_int empty_state [2147483648]).
Proof. intros [H _ _ _ _ _ _ _ _ _]. cbn in H. inversion H as [|? ? Hz _]. discriminate Hz. Qed.

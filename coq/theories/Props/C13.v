(* C13 — random value generators respect their bounds.
   Every theorem is stated for EVERY world w (its tape = the outcomes of the random
   number generator, Model/RandomGen.v) and every FloatOps.  `exists ... = Ok ...`
   also says: no panic, and the function returns (no hang). *)
From Coq Require Import ZArith String List Bool.
From PushModel Require Import Base.Sx Base.Machine Base.ListOps Base.F32 Model.Item Model.State Model.InstrBase Model.Registry
  Model.Interp Model.RandomGen Model.IRand Model.RegistryRand Model.RegistryAll Spec.RandSpec Proofs.RandCode Proofs.RandVec Proofs.RandDispatch.
Import ListNotations.
Open Scope Z_scope.
Open Scope list_scope.

(* INTEGER.RAND: a value of [min, max), or nothing when the interval is empty *)
Theorem C13_int_rand_in_range : forall p w s,
  let lo := cfg_min_rand_int (st_cfg s) in
  let hi := cfg_max_rand_int (st_cfg s) in
  exists w' s', integer_rand p w s = Ok (w', s') /\
    if lo <? hi then exists z, s' = push_int s z /\ lo <= z < hi
    else s' = s /\ w' = w.
Proof. exact @int_rand_in_range. Qed.
Print Assumptions C13_int_rand_in_range.

(* FLOAT.RAND: a value of [min, max) (min <= x < max under fcmp, or bit-identical to min), or nothing
   when the interval is empty or its width is not a finite f32.  Thin: the interval is the documented
   contract of rand's gen_range, which is built into the oracle (draw_f32_range); the theorem adds
   that the instruction guards exactly the cases in which gen_range would panic. *)
Theorem C13_float_rand_in_range : forall (FO : FloatOps) p w s,
  let lo := cfg_min_rand_float (st_cfg s) in
  let hi := cfg_max_rand_float (st_cfg s) in
  exists w' s', float_rand p w s = Ok (w', s') /\
    if flt lo hi && f_is_finite (fsub hi lo) then exists x, s' = push_float s x /\ f_in_range lo hi x = true
    else s' = s /\ w' = w.
Proof. exact @float_rand_in_range. Qed.
Print Assumptions C13_float_rand_in_range.

(* BOOLVECTOR.RAND with valid operands: a vector of the requested length ...
   [nbits_sane]: 0 <= nbits <= size, a fact of IEEE arithmetic (the share is at most 1/2) that the
   law-free FloatOps interface cannot supply; evaluated by the checker on every observed case. *)
Theorem C13_bool_vec_length : forall (FO : FloatOps) p w s size ir sp fr,
  st_int s = size :: ir -> st_float s = sp :: fr ->
  bv_params_ok size sp = true -> nbits_sane size sp = true ->
  exists w' v, bool_vector_rand p w s = Ok (w', set_bvec (set_float (set_int s ir) fr) (v :: st_bvec s)) /\
    zlen v = size.
Proof.
  intros FO p w s size ir sp fr Hi Hf Hp Hs.
  destruct (bool_vector_rand_ok p w s size ir sp fr Hi Hf Hp Hs) as [w' [v [H [Hl _]]]]. eauto.
Qed.
Print Assumptions C13_bool_vec_length.

(* ... whose number of non-default bits is the documented share: default = (sparsity > 0.5),
   share = round(100 * min(sparsity, 1 - sparsity)) / 100, nbits = trunc(share * size) *)
Theorem C13_bool_vec_count : forall (FO : FloatOps) p w s size ir sp fr,
  st_int s = size :: ir -> st_float s = sp :: fr ->
  bv_params_ok size sp = true -> nbits_sane size sp = true ->
  exists w' v, bool_vector_rand p w s = Ok (w', set_bvec (set_float (set_int s ir) fr) (v :: st_bvec s)) /\
    count_neq (fgt sp f_half) v =
    f_to_i32 (fmul (fdiv (fround (fmul f_100 (fmin sp (fsub f_one sp)))) f_100) (f_of_i32 size)).
Proof.
  intros FO p w s size ir sp fr Hi Hf Hp Hs.
  destruct (bool_vector_rand_ok p w s size ir sp fr Hi Hf Hp Hs) as [w' [v [H [_ Hc]]]]. eauto.
Qed.
Print Assumptions C13_bool_vec_count.

(* ... and every position can become non-default: some outcome of the generator sets it *)
Theorem C13_bool_vec_every_position_reachable : forall (FO : FloatOps) p s size ir sp fr pos nn,
  st_int s = size :: ir -> st_float s = sp :: fr ->
  bv_params_ok size sp = true -> nbits_sane size sp = true -> 1 <= nbits size sp -> 0 <= pos < size ->
  exists t w' v, bool_vector_rand p {| w_next_node := nn; w_tape := t |} s
                   = Ok (w', set_bvec (set_float (set_int s ir) fr) (v :: st_bvec s)) /\
    nth_error v (Z.to_nat pos) = Some (negb (bv_default sp)).
Proof. exact @bool_vector_rand_reachable. Qed.
Print Assumptions C13_bool_vec_every_position_reachable.

(* the rejection loop `loop { i = gen_range(0..hi); if v[i] == default { flip; break } }`:
   it ends as soon as the generator offers a default position (within the first `fuel` draws),
   and such a position exists while the vector still holds a default value *)
Theorem C13_rejection_loop_finishes : forall (d : bool) (fuel : nat) (hi : Z) (t : tape) (v : list bool),
  0 < hi <= zlen v ->
  ((exists k, (k < fuel)%nat /\ nth_error v (Z.to_nat (nth k t 0 mod hi)) = Some d) ->
     exists v' t', flip_loop fuel hi d t v = Ok (Some (v', t')) /\ flipped d hi v v') /\
  (1 <= count_eq d v -> exists i, (i < length v)%nat /\ nth_error v i = Some d).
Proof.
  intros d fuel hi t v Hh. split; [apply flip_loop_finishes; exact Hh|apply default_exists].
Qed.
Print Assumptions C13_rejection_loop_finishes.

(* INTVECTOR.RAND with valid operands: requested length, every element in [min, max) *)
Theorem C13_int_vec_length_range : forall p w s size hi lo ir,
  st_int s = size :: hi :: lo :: ir -> iv_params_ok size lo hi = true ->
  exists w' v, int_vector_rand p w s = Ok (w', set_ivec (set_int s ir) (v :: st_ivec s)) /\
    zlen v = size /\ Forall (fun z => lo <= z < hi) v.
Proof. exact @int_vector_rand_ok. Qed.
Print Assumptions C13_int_vec_length_range.

(* FLOATVECTOR.RAND with valid operands: requested length *)
Theorem C13_float_vec_length : forall (FO : FloatOps) p w s size ir mean sd fr,
  st_int s = size :: ir -> st_float s = mean :: sd :: fr -> fv_params_ok size sd = true ->
  exists w' v, float_vector_rand p w s = Ok (w', set_fvec (set_float (set_int s ir) fr) (v :: st_fvec s)) /\
    zlen v = size.
Proof. exact @float_vector_rand_ok. Qed.
Print Assumptions C13_float_vec_length.

(* invalid parameters (negative size; sparsity outside [0,1] or NaN; max <= min; negative, NaN or
   infinite deviation): no vector, no panic, nothing drawn, only the operands are consumed *)
Theorem C13_invalid_params_none : forall (FO : FloatOps) p w s,
  (forall size ir sp fr, st_int s = size :: ir -> st_float s = sp :: fr -> bv_params_ok size sp = false ->
      bool_vector_rand p w s = Ok (w, set_float (set_int s ir) fr)) /\
  (forall size hi lo ir, st_int s = size :: hi :: lo :: ir -> iv_params_ok size lo hi = false ->
      int_vector_rand p w s = Ok (w, set_int s ir)) /\
  (forall size ir mean sd fr, st_int s = size :: ir -> st_float s = mean :: sd :: fr -> fv_params_ok size sd = false ->
      float_vector_rand p w s = Ok (w, set_float (set_int s ir) fr)).
Proof. exact @invalid_params_none. Qed.
Print Assumptions C13_invalid_params_none.

(* NAME.RANDBOUNDNAME returns a currently bound name whenever one exists *)
Theorem C13_randbound_returns_bound_name : forall p w s,
  st_bind s <> [] ->
  exists w' nm, name_rand_bound p w s = Ok (w', push_name s nm) /\ In nm (map fst (st_bind s)).
Proof. exact @randbound_returns_bound_name. Qed.
Print Assumptions C13_randbound_returns_bound_name.

(* the interpreter dispatches the nine RAND names to the bodies the theorems above speak about *)
Theorem C13_rand_names_dispatch : forall (FO : FloatOps),
  Forall (fun e => lookup full_registry (s2l (fst e)) = Some (snd e)) (tbl_rand full_names).
Proof. exact @rand_names_dispatch. Qed.
Print Assumptions C13_rand_names_dispatch.

(* ---- non-vacuity and the refuted pinned behaviour ---- *)
Example C13_nonvacuous_flip :
  flip_loop 3 4 false [7; 2; 1] [false; false; true; true] = Ok (Some ([false; true; true; true], [])) /\
  flip_one 2 false [] [true; false] = Ok ([true; true], []) /\
  count_neq false [false; true; true; true] = 3.
Proof. repeat split; reflexivity. Qed.
Example C13_nonvacuous_int_vector :
  random_int_vector 3 (-2) 2 [5; -1; 0] = Ok (Some [-1; 1; -2], []) /\ iv_params_ok 3 (-2) 2 = true.
Proof. split; reflexivity. Qed.
(* the pinned index range 0..size-1 never offers the last position *)
Example C13_bool_vec_pinned_refuted : forall t v' t',
  flip_n 1 (2 - 1) false t [false; false] = Ok (v', t') -> v' = [true; false].
Proof. exact bool_vec_pinned_last_never. Qed.
(* the pinned FLOATVECTOR.RAND / FLOAT.RAND panic on a non-finite deviation / interval width *)
Example C13_float_vec_pinned_refuted : forall (FO : FloatOps) size mean sd t,
  0 <= size -> f_is_finite sd = false -> flt sd f_zero = false ->
  random_float_vector_pinned size mean sd t = Panic.
Proof. exact @float_vec_pinned_panics. Qed.
Example C13_float_rand_pinned_refuted : forall (FO : FloatOps) p w s,
  flt (cfg_min_rand_float (st_cfg s)) (cfg_max_rand_float (st_cfg s)) = true ->
  f_is_finite (fsub (cfg_max_rand_float (st_cfg s)) (cfg_min_rand_float (st_cfg s))) = false ->
  float_rand_pinned p w s = Panic.
Proof. exact @float_rand_pinned_panics. Qed.

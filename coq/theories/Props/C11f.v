(* C11 for the executable float instance — the scalar law discharged.

   Props/C11.v states print . parse . print = print for programs with float
   literals under the hypothesis
       forall x y, fparse (ffmt 3 x) = Some y -> ffmt 3 y = ffmt 3 x.
   Here that hypothesis is a theorem about [flocq_ops tab] (Base/F32Flocq.v:
   Flocq binary32, `{:.3}` printing by exact half-to-even rounding of the
   value, dec2flt parsing by correctly rounded conversion), for every bit
   pattern: NaN, infinities, zeros of both signs, subnormals
   (Proofs/Fmt3Law*.v).  So the tree-level statements hold for the instance
   with no premise about floats left.

   This file (and Proofs/Fmt3Law*.v) imports Base/F32Flocq.v, hence Flocq and
   the four classical axioms of Coq's Reals; nothing else is assumed.
   [flocq_ops] is the *model* of Rust's f32 formatting and parsing; it is tied
   to the implementation by the correspondence runs (suite parse.prim op 4 and
   the f32 suites), as before. *)
From Coq Require Import ZArith List Bool.
From PushModel Require Import Base.Sx Base.Machine Base.F32 Base.F32Flocq Model.Item Model.State Model.Parser
  Spec.ParseSpec Proofs.ParseLex Proofs.ParseTree Proofs.ParseRules Proofs.ParsePrint Proofs.Fmt3Law Props.C11.
Import ListNotations.
Open Scope Z_scope.

(* ---- the scalar law, existence form: the printed text parses, and prints back as itself ---- *)
Theorem C11_fmt3_stable_flocq :
  forall (tab : list (Z * Z * Z)) (x : f32), let FO := flocq_ops tab in
    exists y, fparse (ffmt 3 x) = Some y /\ ffmt 3 y = ffmt 3 x.
Proof. exact fmt3_stable. Qed.
Print Assumptions C11_fmt3_stable_flocq.

(* ---- one program with float literals ---- *)
Theorem C11_print_parse_print_floats_flocq :
  forall (tab : list (Z * Z * Z)) (names : list str) (p : profile), let FO := flocq_ops tab in
    forall (t : item) (s : state),
      printable_f names t = true -> str_fits (item_str t) -> st_exec s = [] ->
      exists t', parse_program p names s (item_str t) = Ok (set_exec s [t']) /\ item_str t' = item_str t.
Proof.
  intros tab names p FO.
  exact (C11_print_parse_print_floats_partial FO names p (fmt3_law tab)).
Qed.
Print Assumptions C11_print_parse_print_floats_flocq.

(* ---- a whole stack of them ---- *)
Theorem C11_print_parse_print_stack_floats_flocq :
  forall (tab : list (Z * Z * Z)) (names : list str) (p : profile), let FO := flocq_ops tab in
    forall (l : list item) (s : state),
      forallb (printable_f names) l = true -> str_fits (items_str l) -> st_exec s = [] ->
      exists l', parse_program p names s (items_str l) = Ok (set_exec s l') /\ items_str l' = items_str l.
Proof.
  intros tab names p FO.
  exact (C11_print_parse_print_stack_floats_partial FO names p (fmt3_law tab)).
Qed.
Print Assumptions C11_print_parse_print_stack_floats_flocq.

(* ---- non-vacuity: a program with float literals (1.0, -0.0, a subnormal, 0.0005 rounded, NaN, -inf)
   is in the class, and one where the second print differs from the value (1.0005 -> "1.000" or "1.001")
   still prints the same text ---- *)
Definition ex_fprog : item :=
  IList [ILit (LFloat 1065353216); ILit (LFloat 2147483648); ILit (LFloat 1); ILit (LFloat 973279855);
         ILit (LFloat 2143289344); ILit (LFloat 4286578688); IList [ILit (LInt 3); ILit (LFloat 1065357410)]].
Example C11f_nonvacuous_printable : @printable_f (flocq_ops []) [] ex_fprog = true.
Proof. vm_compute. reflexivity. Qed.
Example C11f_nonvacuous_changes_value :
  let FO := flocq_ops [] in
  exists y, fparse (ffmt 3 1065357410) = Some y /\ y <> 1065357410 /\ ffmt 3 y = ffmt 3 1065357410.
Proof. eexists. split; [vm_compute; reflexivity|]. split; [discriminate|vm_compute; reflexivity]. Qed.

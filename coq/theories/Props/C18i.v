(* C18 — graph memory, instruction level: the nineteen GRAPH.* instructions
   (src/push/graph.rs:483-865) over the capacity-100 GRAPH stack.
   Only statements, each closed by [exact] of a lemma from Proofs/GraphInstr.v,
   with [Print Assumptions] beneath.

   Vocabulary.  [st_graph s] is the GRAPH stack OLDEST FIRST: the top graph is
   the last element, `below ++ [g]` is a stack whose top is g.  A program is a
   list of exec items; "GRAPH.* program" = every item is a GRAPH.* instruction
   or a literal (literals feed the instructions their operands).  [steps p
   full_registry k w s] runs k interpreter steps (Model/Interp.v) with the
   complete registry; [w] holds the process-global node counter.  [inv] is the
   structural invariant of Proofs/GraphFacts.v (sorted unique node ids and
   destination keys, every edge joins two existing nodes, no destination list
   holds two edges from one origin).  [stale g id] = id is not a node of g.
   GRAPH.EDGE*HISTORY is the body AFTER the repair `pos > 0` -> `pos >= 0`
   (fixes/C18-edge-history-depth0.patch); the pinned body is refuted below. *)
From Coq Require Import ZArith String List Bool Lia.
From PushModel Require Import Base.Sx Base.Machine Base.ListOps Base.F32 Model.Item Model.GraphT Model.State
  Model.InstrBase Model.Registry Model.Interp Model.IGraph Model.RegistryGraph Model.RegistryAll
  Model.Buffer Spec.BufSpec Proofs.GraphFacts Proofs.GraphInstr.
Import ListNotations.
Close Scope string_scope.
Open Scope Z_scope.

Ltac conj := repeat match goal with |- _ /\ _ => split end.

(* GRAPH.DUP takes a snapshot that no later GRAPH.* program alters: with room
   on the stack (fewer than 100 graphs) the duplicated graph g and everything
   below it are still there, in place, after any number of further steps, and
   at least one graph (the working copy) lies above them.  On a FULL stack the
   push is ignored (PushBuffer::push, not push_force): no snapshot is taken,
   the stack keeps its 100 graphs and only its top can have changed.  The
   stack never exceeds 100 graphs. *)
Theorem C18i_dup_is_snapshot :
  forall (FO : FloatOps) (p : profile) (w : world) (s : state) (below : list graph) (g : graph)
         (prog rest : list item) (k : nat) (fin : bool) (w' : world) (s' : state),
    st_graph s = below ++ [g] ->
    zlen (st_graph s) <= GRAPH_CAP ->
    st_exec s = IInstr (s2l "GRAPH.DUP"%string) :: prog ++ rest ->
    Forall (fun t => (exists i, t = IInstr (s2l (ginstr_name i))) \/ (exists v, t = ILit v)) prog ->
    (k <= length prog)%nat ->
    steps p full_registry (S k) w s = Ok (fin, w', s') ->
    fin = false
    /\ (zlen (st_graph s) < GRAPH_CAP -> exists ext, st_graph s' = below ++ g :: ext /\ ext <> [])
    /\ (zlen (st_graph s) = GRAPH_CAP -> exists g', st_graph s' = below ++ [g'])
    /\ zlen (st_graph s') <= GRAPH_CAP.
Proof. exact (@dup_is_snapshot). Qed.
Print Assumptions C18i_dup_is_snapshot.

(* more generally, no GRAPH.* program touches anything below the top graph *)
Theorem C18i_snapshots_below_kept :
  forall (FO : FloatOps) (p : profile) (w : world) (s : state) (below : list graph) (g : graph)
         (prog rest : list item) (k : nat) (fin : bool) (w' : world) (s' : state),
    st_graph s = below ++ [g] ->
    st_exec s = prog ++ rest ->
    Forall (fun t => (exists i, t = IInstr (s2l (ginstr_name i))) \/ (exists v, t = ILit v)) prog ->
    (k <= length prog)%nat ->
    steps p full_registry k w s = Ok (fin, w', s') ->
    exists ext, st_graph s' = below ++ ext /\ ext <> [].
Proof. exact (@gprog_keeps_below). Qed.
Print Assumptions C18i_snapshots_below_kept.

(* The HISTORY instructions read exactly the k-th newest snapshot (k = 0: the
   top graph), [newest k]; that is get(k) of the Stack-kind buffer of C17.
   The position is the top INTEGER.  Negative position: only the position is
   consumed.  Position >= number of snapshots: nothing is read; NODE*HISTORY
   has consumed the id by then, EDGE*HISTORY and NODES*HISTORY leave their
   other operands.  NODE*HISTORY: id = second INTEGER, must be >= 0.
   EDGE*HISTORY: destination = second, origin = third INTEGER. *)
Theorem C18i_history_reads_depth :
  forall (FO : FloatOps) (s : state),
    let newest (k : Z) := nth_error (rev (st_graph s)) (Z.to_nat k) in
    (forall k, 0 <= k -> newest k = bget Stack (st_graph s) k)
    /\ lookup full_registry (s2l "GRAPH.NODE*HISTORY"%string) = Some (pure graph_node_history)
    /\ lookup full_registry (s2l "GRAPH.EDGE*HISTORY"%string) = Some (pure graph_edge_history)
    /\ lookup full_registry (s2l "GRAPH.NODES*HISTORY"%string) = Some (pure graph_nodes_history)
    /\ (forall pos r, st_int s = pos :: r -> pos < 0 ->
          graph_node_history s = Ok (set_int s r)
          /\ graph_edge_history s = Ok (set_int s r)
          /\ graph_nodes_history s = Ok (set_int s r))
    /\ (forall pos id r, st_int s = pos :: id :: r -> 0 <= pos ->
          graph_node_history s =
          Ok (set_int s (match newest pos with
                         | Some g => if 0 <=? id
                                     then match g_get_state g id with Some st => st :: r | None => r end
                                     else r
                         | None => r
                         end)))
    /\ (forall pos d o r, st_int s = pos :: d :: o :: r -> 0 <= pos ->
          graph_edge_history s =
          Ok (match newest pos with
              | Some g => match g_get_weight g (i32_as_usize o) (i32_as_usize d) with
                          | Some w => set_float (set_int s r) (w :: st_float s)
                          | None => set_int s r
                          end
              | None => set_int s (d :: o :: r)
              end))
    /\ (forall pos r sts vr, st_int s = pos :: r -> st_ivec s = sts :: vr -> 0 <= pos ->
          graph_nodes_history s =
          Ok (match newest pos with
              | Some g => set_ivec (set_int s r) (g_filter g sts :: vr)
              | None => set_int s r
              end)).
Proof.
  intros FO s newest. conj; try reflexivity.
  - exact (snapshot_at_bget (st_graph s)).
  - intros pos r E N. apply (history_negative s pos r); assumption.
  - exact (node_history_spec s).
  - exact (edge_history_spec s).
  - exact (nodes_history_spec s).
Qed.
Print Assumptions C18i_history_reads_depth.

(* the pinned EDGE*HISTORY (guard `pos > 0`) cannot read the current snapshot:
   at depth 0 it pushes nothing, whatever the graph holds *)
Theorem C18i_edge_history_pinned_refuted :
  forall (FO : FloatOps) (s : state) (d o : Z) (r : list Z),
    st_int s = 0 :: d :: o :: r -> graph_edge_history_pinned s = Ok (set_int s (d :: o :: r)).
Proof. intros FO. exact edge_history_pinned_depth0. Qed.
Print Assumptions C18i_edge_history_pinned_refuted.

(* Ids that are not nodes of the top graph (stale, never issued, negative —
   `as usize` makes those huge —, zero): the operands are consumed and every
   graph of the stack stays exactly as it was.  EDGE*SETWEIGHT / EDGE*GETWEIGHT
   need the top graph well formed ([inv], preserved by every GRAPH.* program,
   C18i_graph_inv_preserved). *)
Theorem C18i_stale_ids_noop :
  forall (FO : FloatOps) (s : state) (g : graph),
    gs_get (st_graph s) 0 = Some g ->
    let stale id := g_get_state g (i32_as_usize id) = None in
    (forall st id r, st_int s = st :: id :: r -> stale id ->
       graph_node_set_state s = Ok (set_int s r))
    /\ (forall w fr d o r, st_float s = w :: fr -> st_int s = d :: o :: r -> stale o \/ stale d ->
          graph_edge_add s = Ok (set_int (set_float s fr) r))
    /\ (forall w fr d o r, inv g -> st_float s = w :: fr -> st_int s = d :: o :: r -> stale o \/ stale d ->
          graph_edge_set_weight s = Ok (set_int (set_float s fr) r))
    /\ (forall ids vr sw br off on r,
          st_ivec s = ids :: vr -> st_bvec s = sw :: br -> st_int s = off :: on :: r -> Forall stale ids ->
          graph_node_state_switch s = Ok (set_int (set_bvec (set_ivec s vr) br) r))
    /\ (forall id r, st_int s = id :: r -> stale id -> graph_node_get_state s = Ok (set_int s r))
    /\ (forall d o r, inv g -> st_int s = d :: o :: r -> stale o \/ stale d ->
          graph_edge_get_weight s = Ok (set_int s r)).
Proof.
  intros FO s g T stale. conj; intros.
  - eapply stale_set_state; eassumption.
  - eapply stale_edge_add; eassumption.
  - eapply stale_edge_set_weight; eassumption.
  - eapply stale_state_switch; eassumption.
  - eapply stale_get_state; eassumption.
  - eapply stale_get_weight; eassumption.
Qed.
Print Assumptions C18i_stale_ids_noop.

(* Every GRAPH.* name is bound to its model ([ginstr_sem], Model/RegistryGraph.v),
   and with its operands present each instruction applies the corresponding
   function of Model/Graph.v to the TOP graph g, in the documented operand order:
     NODE*ADD       state = top INTEGER; the new id (`as i32`) replaces it; the id is the process counter
     NODE*SETSTATE  state = top, id = second INTEGER (id > 0)
     NODE*GETSTATE  id = top INTEGER (id > 0)
     EDGE*ADD / EDGE*SETWEIGHT   weight = top FLOAT, destination = top, origin = second INTEGER
     EDGE*GETWEIGHT destination = top, origin = second INTEGER
     NODES          states = top INTVECTOR, replaced by the filter result
     NODE*PREDECESSORS / SUCCESSORS / NEIGHBORS   states = top INTVECTOR, id = top INTEGER (id > 0)
     NODE*STATESWITCH  ids = top INTVECTOR, switch = top BOOLVECTOR, off-state = top, on-state = second INTEGER
     ADD / DUP      push the empty graph / a copy of g unless 100 graphs are held
     PRINT*DIFF     diff FROM the second graph TO the top graph. *)
Theorem C18i_wrappers_match_api :
  forall (FO : FloatOps) (s : state) (below : list graph) (g : graph),
    st_graph s = below ++ [g] ->
    (forall i, lookup full_registry (s2l (ginstr_name i)) = Some (ginstr_sem i))
    /\ graph_add s = Ok (set_graph s (if zlen (st_graph s) <? GRAPH_CAP then st_graph s ++ [g_new] else st_graph s))
    /\ graph_dup s = Ok (set_graph s (if zlen (st_graph s) <? GRAPH_CAP then st_graph s ++ [g] else st_graph s))
    /\ graph_stack_depth s = Ok (set_int s (wrap32 (zlen (st_graph s)) :: st_int s))
    /\ (forall p w st r, st_int s = st :: r ->
          graph_node_add p w s =
          Ok ({| w_next_node := wrap64u (w_next_node w + 1); w_tape := w_tape w |},
              set_graph (set_int s (usize_as_i32 (w_next_node w) :: r))
                        (below ++ [g_add_node g (w_next_node w) st])))
    /\ (forall st id r, st_int s = st :: id :: r -> 0 < id ->
          graph_node_set_state s = Ok (set_graph (set_int s r) (below ++ [g_set_state g id st])))
    /\ (forall id r, st_int s = id :: r -> 0 < id ->
          graph_node_get_state s = Ok (set_int s (match g_get_state g id with Some st => st :: r | None => r end)))
    /\ (forall w fr d o r, st_float s = w :: fr -> st_int s = d :: o :: r ->
          graph_edge_add s =
          Ok (set_graph (set_int (set_float s fr) r) (below ++ [g_add_edge g (i32_as_usize o) (i32_as_usize d) w])))
    /\ (forall w fr d o r, st_float s = w :: fr -> st_int s = d :: o :: r ->
          graph_edge_set_weight s =
          Ok (set_graph (set_int (set_float s fr) r) (below ++ [g_set_weight g (i32_as_usize o) (i32_as_usize d) w])))
    /\ (forall d o r, st_int s = d :: o :: r ->
          graph_edge_get_weight s =
          Ok (match g_get_weight g (i32_as_usize o) (i32_as_usize d) with
              | Some w => set_float (set_int s r) (w :: st_float s)
              | None => set_int s r
              end))
    /\ (forall sts vr, st_ivec s = sts :: vr -> graph_nodes s = Ok (set_ivec s (g_filter g sts :: vr)))
    /\ (forall sts vr id r, st_ivec s = sts :: vr -> st_int s = id :: r -> 0 < id ->
          graph_node_predecessors s = Ok (set_ivec (set_int s r) (map usize_as_i32 (g_preds g id sts) :: vr))
          /\ graph_node_successors s = Ok (set_ivec (set_int s r) (map usize_as_i32 (g_succs g id sts) :: vr))
          /\ graph_node_neighbors s = Ok (set_ivec (set_int s r) (map usize_as_i32 (g_neighbours g id sts) :: vr)))
    /\ (forall ids vr sw br off on r,
          st_ivec s = ids :: vr -> st_bvec s = sw :: br -> st_int s = off :: on :: r ->
          graph_node_state_switch s =
          Ok (set_graph (set_int (set_bvec (set_ivec s vr) br) r)
                (below ++ [fold_left (fun (a : graph) (x : Z * bool) =>
                                        g_set_state a (i32_as_usize (fst x)) (if snd x then on else off))
                                     (combine ids sw) g])))
    /\ graph_print s = Ok (set_name s (graph_text g :: st_name s))
    /\ (forall below' old, below = below' ++ [old] ->
          graph_print_diff s = Ok (match g_diff old g with
                                   | Some d => set_name s (diff_text d :: st_name s)
                                   | None => s
                                   end)).
Proof.
  intros FO s below g T. conj; intros; conj.
  - apply lookup_ginstr.
  - apply w_add.
  - eapply w_dup; eassumption.
  - apply w_stack_depth.
  - eapply w_node_add; eassumption.
  - eapply w_node_set_state; eassumption.
  - eapply w_node_get_state; eassumption.
  - eapply w_edge_add; eassumption.
  - eapply w_edge_set_weight; eassumption.
  - eapply w_edge_get_weight; eassumption.
  - eapply w_nodes; eassumption.
  - eapply (w_query s below g T g_preds); eassumption.
  - eapply (w_query s below g T g_succs); eassumption.
  - eapply (w_query s below g T g_neighbours); eassumption.
  - rewrite <- switch_loop_fold. eapply w_state_switch; eassumption.
  - eapply w_print; eassumption.
  - subst below. eapply w_print_diff. rewrite T, <- app_assoc. reflexivity.
Qed.
Print Assumptions C18i_wrappers_match_api.

(* No GRAPH.* instruction panics, and each one — hence every GRAPH.* program —
   preserves [inv] on every snapshot of the stack. *)
Theorem C18i_graph_inv_preserved :
  forall (FO : FloatOps),
    (forall i p w s, exists w' s', ginstr_sem i p w s = Ok (w', s'))
    /\ (forall i p w s w' s',
          Forall inv (st_graph s) -> ginstr_sem i p w s = Ok (w', s') -> Forall inv (st_graph s'))
    /\ (forall (p : profile) (w : world) (s : state) (prog rest : list item) (k : nat)
               (fin : bool) (w' : world) (s' : state),
          Forall inv (st_graph s) ->
          st_exec s = prog ++ rest ->
          Forall (fun t => (exists i, t = IInstr (s2l (ginstr_name i))) \/ (exists v, t = ILit v)) prog ->
          (k <= length prog)%nat ->
          steps p full_registry k w s = Ok (fin, w', s') ->
          Forall inv (st_graph s')).
Proof.
  intros FO. split; [exact ginstr_total|]. split; [exact ginstr_inv|exact gprog_inv].
Qed.
Print Assumptions C18i_graph_inv_preserved.

(* Non-vacuity: a program builds a two-node graph with one edge, duplicates it,
   changes the weight of the copy on top and reads the edge at depth 1 (the
   snapshot: old weight) and at depth 0 (the top: new weight); node ids come
   from the world counter (5, 6). *)
Section NonVacuous.
  Context {FO : FloatOps}.
  Let I (n : string) := IInstr (s2l n).
  Let prog : list item :=
    [ I "GRAPH.ADD"; ILit (LInt 7); I "GRAPH.NODE*ADD"; ILit (LInt 8); I "GRAPH.NODE*ADD";
      ILit (LFloat 1056964608); I "GRAPH.EDGE*ADD"; I "GRAPH.DUP";
      ILit (LInt 5); ILit (LInt 6); ILit (LFloat 1073741824); I "GRAPH.EDGE*SETWEIGHT";
      ILit (LInt 5); ILit (LInt 6); ILit (LInt 1); I "GRAPH.EDGE*HISTORY";
      ILit (LInt 5); ILit (LInt 6); ILit (LInt 0); I "GRAPH.EDGE*HISTORY"; I "GRAPH.STACKDEPTH" ]%string.
  Example C18i_nonvacuous :
    exists w' s',
      steps Debug full_registry (length prog) {| w_next_node := 5; w_tape := [] |} (set_exec empty_state prog)
      = Ok (false, w', s')
      /\ w_next_node w' = 7
      /\ st_float s' = [1073741824; 1056964608]
      /\ st_int s' = [2]
      /\ st_graph s' = [ mkGraph [(5, 7); (6, 8)] [(6, [(5, 1056964608)])];
                         mkGraph [(5, 7); (6, 8)] [(6, [(5, 1073741824)])] ]
      /\ Forall inv (st_graph s').
  Proof.
    eexists _, _. split; [vm_compute; reflexivity|]. cbn [w_next_node st_float st_int st_graph].
    repeat split. repeat constructor; cbn; auto; repeat constructor; cbn; lia.
  Qed.
End NonVacuous.

(* C12 / C11 for the executable float instance — a NEW name of the random code
   generator is read back by the parser as that name.

   random_code draws new names from names::Generator::default(): two or more
   runs of ASCII lower-case letters joined by '-' ("quiet-river").
   Model/RandomGen.v ([draw_name]) assumes nothing about a drawn name but that
   it is non-empty; for "every generated program prints and parses back" the
   shape matters, because the parser decides by the text alone whether a token
   is a vector literal, a parenthesis, an instruction, an i32, an f32, TRUE /
   FALSE or a name.  [name_shape nm] (Proofs/NameShape.v) says: nm starts with
   a lower-case ASCII letter, consists of lower-case ASCII letters and '-'
   only, and contains a '-'.  For such nm, with the real instruction set
   [reg_names] (every registered name starts with an upper-case letter) and
   the float parser of [flocq_ops tab] (the dec2flt grammar), [rt_atom] /
   [printable] of Spec/ParseSpec.v hold of (IName nm); the tree-level
   statements combine this with Props/C11.v and Props/C11f.v.

   Assumptions.  This file imports Base/F32Flocq.v (hence Flocq and Coq's
   Reals).  Every theorem whose STATEMENT mentions the instance [flocq_ops tab]
   or its parser [fl_parse] depends on the four classical axioms of the Reals
   library through Flocq (Classical_Prop.classic,
   FunctionalExtensionality.functional_extensionality_dep,
   ClassicalDedekindReals.sig_forall_dec, ClassicalDedekindReals.sig_not_dec):
   Print Assumptions lists exactly these four.  They enter through the
   definitions ([fl_parse] ends in Flocq's rounding of the decimal value, the
   record contains the Flocq arithmetic); the reasoning about names never
   reaches that part of [fl_parse] - a shaped name is rejected by the grammar
   before any value is computed.  The two statements that mention neither
   (C12_shaped_names_classify, C12_registered_names_upper_case) are "Closed
   under the global context".  The last theorem
   (C12_shaped_names_floats_print_parse_print) also uses the scalar law of
   Proofs/Fmt3Law.v.  Nothing else is assumed. *)
From Coq Require Import ZArith String List Bool.
From PushModel Require Import Base.Sx Base.Machine Base.F32 Base.F32Flocq Model.Item Model.State Model.InstrBase
  Model.Parser Spec.ParseSpec Proofs.ParseTree Proofs.NameShape Suites.SParser.
Import ListNotations.
Open Scope Z_scope.

(* ---- a name of the generator's shape lexes back as itself ---- *)
Theorem C12_shaped_new_names_parse_back :
  forall (tab : list (Z * Z * Z)) (nm : str),
    name_shape nm = true ->
    @rt_atom (flocq_ops tab) (@reg_names (flocq_ops tab)) (IName nm) = true.
Proof. exact shaped_name_rt_atom. Qed.
Print Assumptions C12_shaped_new_names_parse_back.

Theorem C12_shaped_new_names_printable :
  forall (tab : list (Z * Z * Z)) (nm : str),
    name_shape nm = true ->
    @printable (flocq_ops tab) (@reg_names (flocq_ops tab)) (IName nm) = true.
Proof. exact shaped_name_printable. Qed.
Print Assumptions C12_shaped_new_names_printable.

(* the classification itself, for any float implementation whose parser rejects
   the token and any instruction set of upper-case-initial names *)
Theorem C12_shaped_names_classify :
  forall (FO : FloatOps) (names : list str),
    forallb uc_first names = true ->
    forall nm : str, name_shape nm = true -> fparse nm = None ->
    classify names nm = CItem (IName nm).
Proof. exact @classify_shaped. Qed.
Print Assumptions C12_shaped_names_classify.

(* the premises about the instance: the float parser ([fparse] of [flocq_ops tab] is [fl_parse]
   by definition) rejects a shaped name ... *)
Theorem C12_shaped_names_not_float :
  forall nm : str, name_shape nm = true -> fl_parse nm = None.
Proof. exact fl_parse_shaped. Qed.
Print Assumptions C12_shaped_names_not_float.

(* ... and every registered instruction name starts with an upper-case ASCII letter *)
Theorem C12_registered_names_upper_case :
  forall (FO : FloatOps), forallb uc_first (@reg_names FO) = true.
Proof. exact reg_names_uc_any. Qed.
Print Assumptions C12_registered_names_upper_case.

(* ---- tree level: every atom is a shaped name or a printable atom ---- *)
Theorem C12_shaped_names_tree_printable :
  forall (tab : list (Z * Z * Z)) (t : item),
    let FO := flocq_ops tab in
    atoms_all (fun a => shaped_name_atom a || rt_atom reg_names a) t = true ->
    printable reg_names t = true.
Proof. exact shaped_tree_printable. Qed.
Print Assumptions C12_shaped_names_tree_printable.

(* so the program, printed and parsed onto an empty EXEC stack, is the program (C11) *)
Theorem C12_shaped_names_tree_roundtrip :
  forall (tab : list (Z * Z * Z)) (p : profile) (t : item) (s : state),
    let FO := flocq_ops tab in
    atoms_all (fun a => shaped_name_atom a || rt_atom reg_names a) t = true ->
    str_fits (item_str t) -> st_exec s = [] ->
    parse_program p reg_names s (item_str t) = Ok (set_exec s [t]).
Proof. exact shaped_tree_roundtrip. Qed.
Print Assumptions C12_shaped_names_tree_roundtrip.

Theorem C12_shaped_names_stack_roundtrip :
  forall (tab : list (Z * Z * Z)) (p : profile) (l : list item) (s : state),
    let FO := flocq_ops tab in
    forallb (atoms_all (fun a => shaped_name_atom a || rt_atom reg_names a)) l = true ->
    str_fits (items_str l) -> st_exec s = [] ->
    parse_program p reg_names s (items_str l) = Ok (set_exec s l).
Proof. exact shaped_stack_roundtrip. Qed.
Print Assumptions C12_shaped_names_stack_roundtrip.

(* ---- with float literals among the other atoms: print . parse . print = print ---- *)
Theorem C12_shaped_names_floats_printable :
  forall (tab : list (Z * Z * Z)) (t : item),
    let FO := flocq_ops tab in
    atoms_all (fun a => shaped_name_atom a || (rt_atom reg_names a || rt_float reg_names a)) t = true ->
    printable_f reg_names t = true.
Proof. exact shaped_tree_printable_f. Qed.
Print Assumptions C12_shaped_names_floats_printable.

Theorem C12_shaped_names_floats_print_parse_print :
  forall (tab : list (Z * Z * Z)) (p : profile) (t : item) (s : state),
    let FO := flocq_ops tab in
    atoms_all (fun a => shaped_name_atom a || (rt_atom reg_names a || rt_float reg_names a)) t = true ->
    str_fits (item_str t) -> st_exec s = [] ->
    exists t', parse_program p reg_names s (item_str t) = Ok (set_exec s [t']) /\ item_str t' = item_str t.
Proof. exact shaped_tree_print_parse_print. Qed.
Print Assumptions C12_shaped_names_floats_print_parse_print.

(* ---- non-vacuity and sharpness ---- *)
(* names as names::Generator produces them have the shape *)
Example C12f_nonvacuous_shape :
  name_shape (s2l "quiet-river") = true /\ name_shape (s2l "well-to-do-aunt") = true.
Proof. split; vm_compute; reflexivity. Qed.
(* and are read back as names (computed, not by the theorem) *)
Example C12f_nonvacuous_classify :
  @classify (flocq_ops []) (@reg_names (flocq_ops [])) (s2l "quiet-river") = CItem (IName (s2l "quiet-river")).
Proof. vm_compute. reflexivity. Qed.
(* a program with two new names, an instruction, an integer and a float literal is in the class *)
Example C12f_nonvacuous_tree :
  let FO := flocq_ops [] in
  atoms_all (fun a => shaped_name_atom a || (rt_atom reg_names a || rt_float reg_names a))
    (IList [IName (s2l "quiet-river"); IList [IInstr (s2l "INTEGER.+"); ILit (LInt (-7))];
            ILit (LFloat 1056964608); IName (s2l "odd-stone")]) = true.
Proof. vm_compute. reflexivity. Qed.

(* the shape excludes the strings that do NOT come back as names: digits lex as an integer,
   "inf" / "nan" as floats, an instruction name as that instruction; and each condition of
   the shape is used: without '-' "inf" and "nan" would pass, with a leading '-' "-inf" would *)
Example C12f_shape_excludes :
  name_shape (s2l "14186630") = false /\ name_shape (s2l "inf") = false /\
  name_shape (s2l "nan") = false /\ name_shape (s2l "-inf") = false /\
  name_shape (s2l "quiet river") = false /\ name_shape (s2l "Quiet-river") = false /\
  name_shape [] = false.
Proof. repeat split; vm_compute; reflexivity. Qed.
Example C12f_unshaped_names_refuted :
  let FO := flocq_ops [] in
  printable reg_names (IName (s2l "14186630")) = false /\
  classify reg_names (s2l "14186630") = CItem (ILit (LInt 14186630)) /\
  printable reg_names (IName (s2l "inf")) = false /\
  classify reg_names (s2l "inf") = CItem (ILit (LFloat 2139095040)) /\
  printable reg_names (IName (s2l "-inf")) = false /\
  printable reg_names (IName (s2l "nan")) = false /\
  printable reg_names (IName (s2l "NOOP")) = false.
Proof. repeat split; vm_compute; reflexivity. Qed.

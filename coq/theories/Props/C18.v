(* C18 — graph memory, API level (Graph / Node / Edge of src/push/graph.rs).
   Only statements, each closed by [exact] of a lemma from Proofs/, with
   [Print Assumptions] beneath.  Histories are lists of operations
   (Spec/GraphSpec.v, [gop]) over a few graph registers, run from empty
   graphs with the process-global node counter at an arbitrary value; ids in
   operations are arbitrary integers (valid, stale and never-issued alike). *)
From Coq Require Import ZArith List Bool Permutation.
From PushModel Require Import Base.Sx Base.Machine Base.ListOps Base.F32 Model.Graph Spec.GraphSpec
  Model.GraphMachine Proofs.GraphFacts Proofs.GraphRefine Proofs.GraphDiff Proofs.GraphHistory.
Import ListNotations.
Open Scope Z_scope.

(* After any history every register holds a well-formed graph: no duplicate
   node ids, no duplicate destination keys, every edge joins two existing
   nodes, no destination list holds two edges from the same origin, hence at
   most one edge per ordered node pair. *)
Theorem C18_graph_inv :
  forall (FO : FloatOps) (next : Z) (n : nat) (ops : list gop),
    Forall (fun g : graph =>
              NoDup (map fst (g_nodes g))
              /\ NoDup (map fst (g_edges g))
              /\ (forall d es, In (d, es) (g_edges g) ->
                    g_get_state g d <> None
                    /\ NoDup (map e_origin es)
                    /\ (forall e, In e es -> g_get_state g (e_origin e) <> None))
              /\ NoDup (map fst (g_edge_list g)))
           (w_regs (fst (g_run (w_init next n) ops))).
Proof. exact (@history_inv). Qed.
Print Assumptions C18_graph_inv.

(* Along any history the outputs (returned ids, states, weights, node and edge
   counts; filter / predecessor / successor / neighbour results up to order;
   a diff by its emptiness) are those of the set-based graph, and at the end
   every register has the states, weights and counts of the specification's. *)
Theorem C18_graph_refines_spec :
  forall (FO : FloatOps) (next : Z) (n : nat) (ops : list gop),
    Forall2 out_equiv (snd (g_run (w_init next n) ops)) (snd (spec_run (sw_init next n) ops))
    /\ w_next (fst (g_run (w_init next n) ops)) = sw_next (fst (spec_run (sw_init next n) ops))
    /\ Forall2 (fun g s =>
                  (forall k, g_get_state g k = s_get_state s k)
                  /\ (forall o d, g_get_weight g o d = s_get_weight s o d)
                  /\ g_node_size g = s_node_count s
                  /\ g_edge_size g = s_edge_count s)
               (w_regs (fst (g_run (w_init next n) ops)))
               (sw_regs (fst (spec_run (sw_init next n) ops))).
Proof. exact (@history_refines). Qed.
Print Assumptions C18_graph_refines_spec.

(* Duplicating a graph takes an independent snapshot: whatever is done later to
   other registers (in particular to the original) never alters the copy, and
   whatever is done to the copy never alters the original. *)
Theorem C18_clone_is_snapshot :
  forall (FO : FloatOps) (w : world) (a b : nat) (later : list gop),
    (b < length (w_regs w))%nat ->
    let w1 := fst (g_step w (GClone a b)) in
    ((forall o, In o later -> writes o <> Some b) -> greg (fst (g_run w1 later)) b = greg w a)
    /\ (a <> b -> (forall o, In o later -> writes o <> Some a) -> greg (fst (g_run w1 later)) a = greg w a).
Proof. exact (@clone_snapshot). Qed.
Print Assumptions C18_clone_is_snapshot.

(* For any two graphs reached by a history, diff returns None exactly when they
   have the same nodes with the same states and the same edges with weights
   equal under f32 `==` ([feq]): a NaN weight is not the same as itself, +0.0
   is the same as -0.0. *)
Theorem C18_diff_empty_iff_same :
  forall (FO : FloatOps) (next : Z) (n : nat) (ops : list gop) (ra rb : nat),
    let a := greg (fst (g_run (w_init next n) ops)) ra in
    let b := greg (fst (g_run (w_init next n) ops)) rb in
    g_diff a b = None <->
    (forall k, g_get_state a k = g_get_state b k)
    /\ (forall o d, match g_get_weight a o d, g_get_weight b o d with
                    | Some x, Some y => feq x y = true
                    | None, None => True
                    | _, _ => False
                    end).
Proof.
  intros FO next n ops ra rb a b.
  rewrite (g_diff_none a b (reach_inv next n ops ra) (reach_inv next n ops rb)).
  unfold g_same. split; intros [H1 H2]; split; auto; intros o d; specialize (H2 o d);
    destruct (g_get_weight a o d); destruct (g_get_weight b o d); cbn [wsame] in *; auto; try discriminate; tauto.
Qed.
Print Assumptions C18_diff_empty_iff_same.

(* so a reachable graph holding a weight that is not `==` to itself has a
   non-empty diff with itself (and with its clone) *)
Theorem C18_diff_nan_self :
  forall (FO : FloatOps) (next : Z) (n : nat) (ops : list gop) (r : nat) (o d : Z) (w : f32),
    let g := greg (fst (g_run (w_init next n) ops)) r in
    g_get_weight g o d = Some w -> feq w w = false -> g_diff g g <> None.
Proof. intros FO next n ops r o d w g. apply g_diff_self_nan. apply reach_inv. Qed.
Print Assumptions C18_diff_nan_self.

(* Predecessor, successor, neighbour and state-filter queries on a reachable
   graph return exactly the node sets read off the edges and states. *)
Theorem C18_pred_succ_neighbour_sets :
  forall (FO : FloatOps) (next : Z) (n : nat) (ops : list gop) (r : nat) (id : Z) (sts : list Z),
    let g := greg (fst (g_run (w_init next n) ops)) r in
    let sel k := match g_get_state g k with Some st => state_sel sts st | None => false end in
    NoDup (g_preds g id sts)
    /\ (forall o, In o (g_preds g id sts) <-> (exists w, g_get_weight g o id = Some w) /\ sel o = true)
    /\ NoDup (g_succs g id sts)
    /\ (forall d, In d (g_succs g id sts) <-> (exists w, g_get_weight g id d = Some w) /\ sel d = true)
    /\ g_neighbours g id sts = g_preds g id sts ++ g_succs g id sts
    /\ (forall k, In k (g_filter_ids g sts) <-> exists st, g_get_state g k = Some st /\ state_sel sts st = true).
Proof. exact (@reach_queries). Qed.
Print Assumptions C18_pred_succ_neighbour_sets.

(* Non-vacuity: a concrete history builds a non-trivial graph, a stale id and a
   never-issued id are no-ops, the clone keeps the old content. *)
Section NonVacuous.
  Context {FO : FloatOps}.
  Example C18_nonvacuous :
    let ops := [GAddNode 0 1; GAddNode 0 7; GAddNode 0 7; GAddEdge 0 5 6 10; GAddEdge 0 6 5 20;
                GAddEdge 0 5 6 30; GAddEdge 0 5 99 40; GClone 0 1; GRemoveNode 0 5; GSetState 0 5 3;
                GNodeSize 0; GEdgeSize 0; GNodeSize 1; GEdgeSize 1; GSuccs 1 5 []; GPreds 1 5 [7]; GGetWeight 1 5 6] in
    snd (g_run (w_init 5 2) ops)
    = [UZ 5; UZ 6; UZ 7; UUnit; UUnit; UUnit; UUnit; UUnit; UUnit; UUnit;
       UZ 2; UZ 0; UZ 3; UZ 2; UIds [6]; UIds [6]; UOF (Some 10)].
  Proof. vm_compute. reflexivity. Qed.
End NonVacuous.

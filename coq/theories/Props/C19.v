(* C19 — LIST records.  Only statements, each closed by [exact] of a lemma of
   Proofs/ListProofs.v, with [Print Assumptions] beneath, and non-vacuity
   examples.  Spec vocabulary (Spec/ListSpec.v): [designate] (one pass over the
   id vector), [picked] / [drop_counts] (occurrence j of id k designates item j
   of stack k), [all_items], [push_lits], [clamped_pos], [typed_points],
   [bools_of] / [ints_of] / [floats_of]. *)
From Coq Require Import String ZArith List Bool Permutation.
From PushModel Require Import Base.Sx Base.Machine Base.ListOps Base.F32 Model.Item Model.GraphT Model.State
  Model.InstrBase Model.Registry Model.Interp Model.IList Model.RegistryListIo Model.RegistryAll
  Spec.ListSpec Proofs.ListProofs.
Import ListNotations.
Open Scope Z_scope.
Open Scope list_scope.

(* LIST.ADD: the id vector is popped; the record pushed on CODE is what one pass
   over the vector designates; said without a pass: occurrence j of id k takes
   item j (from the top) of stack k, ids of empty / exhausted / non-existent
   stacks are skipped, the record lists the items in vector order (last one on
   top), every source stack lost exactly the items taken from its top, nothing
   else changed; and no item appears or disappears (multiset conservation). *)
Theorem C19_list_add_moves_exactly :
  forall (FO : FloatOps) (s : state),
    (st_ivec s = [] -> list_add s = Ok s) /\
    (forall ids rest, st_ivec s = ids :: rest ->
       let s0 := set_ivec s rest in
       let d := designate ids s0 in
       list_add s = Ok (push_code (snd d) (fst d)) /\
       d = (IList (rev (picked [] ids s0)), drop_counts ids s0) /\
       Permutation (all_items s0) (rev (picked [] ids s0) ++ all_items (drop_counts ids s0))).
Proof. exact (fun _ : FloatOps => list_add_moves_exactly_lemma). Qed.
Print Assumptions C19_list_add_moves_exactly.

(* LIST.GET on a record of literals, followed by execution (the real
   interpreter step function with the real registry): after 2 + n steps every
   literal is on its own typed stack, relative order preserved (the first child
   of the record ends deepest), the record is still on CODE, nothing else moved. *)
Theorem C19_list_get_restores :
  forall (FO : FloatOps) (p : profile) (w : world) (s : state) (idx : Z) (r : list Z) (lits : list lit) (E : list item),
    st_exec s = IInstr (s2l "LIST.GET"%string) :: E ->
    st_int s = idx :: r ->
    zlen (st_code s) <= max32 ->
    nth_error (st_code s) (Z.to_nat (clamped_pos idx (zlen (st_code s)))) = Some (IList (map ILit lits)) ->
    let s' := push_lits lits (set_exec (set_int s r) E) in
    steps p full_registry (2 + length lits) w s = Ok (false, w, s') /\
    st_code s' = st_code s /\ st_exec s' = E /\
    st_bool s' = rev (filter_map sel_bool lits) ++ st_bool s /\
    st_int s' = rev (filter_map sel_int lits) ++ r /\
    st_float s' = rev (filter_map sel_float lits) ++ st_float s /\
    st_index s' = rev (filter_map sel_index lits) ++ st_index s /\
    st_bvec s' = rev (filter_map sel_bvec lits) ++ st_bvec s /\
    st_ivec s' = rev (filter_map sel_ivec lits) ++ st_ivec s /\
    st_fvec s' = rev (filter_map sel_fvec lits) ++ st_fvec s /\
    st_name s' = st_name s /\ st_input s' = st_input s /\ st_output s' = st_output s /\
    st_graph s' = st_graph s /\ st_bind s' = st_bind s /\ st_quote s' = st_quote s.
Proof. exact (@list_get_restores_lemma). Qed.
Print Assumptions C19_list_get_restores.

(* What was taken from literal stacks goes back exactly where it was: pushing
   the literals of the designated record in execution order rebuilds the state. *)
Theorem C19_designate_literal_roundtrip :
  forall (FO : FloatOps) (ids : list Z) (s : state),
    Forall (fun k => literal_id k = true) ids ->
    exists lits, fst (designate ids s) = IList (map ILit lits) /\ push_lits lits (snd (designate ids s)) = s.
Proof. exact (fun _ : FloatOps => designate_literal_roundtrip_lemma). Qed.
Print Assumptions C19_designate_literal_roundtrip.

(* End to end through the interpreter: LIST.ADD, 0, LIST.GET and the execution
   of the record leave every stack as it was before LIST.ADD (minus the id
   vector), with the record on top of CODE. *)
Theorem C19_list_add_get_roundtrip :
  forall (FO : FloatOps) (p : profile) (w : world) (s : state) (ids : list Z) (vr : list (list Z)) (E : list item),
    st_exec s = IInstr (s2l "LIST.ADD"%string) :: ILit (LInt 0) :: IInstr (s2l "LIST.GET"%string) :: E ->
    st_ivec s = ids :: vr ->
    Forall (fun k => literal_id k = true) ids ->
    zlen (st_code s) < max32 ->
    exists lits,
      steps p full_registry (4 + length lits) w s =
        Ok (false, w, set_code (set_exec (set_ivec s vr) E) (IList (map ILit lits) :: st_code s)).
Proof. exact (@list_add_get_roundtrip_lemma). Qed.
Print Assumptions C19_list_add_get_roundtrip.

(* LIST.SET (repaired code): position popped, items designated, then exactly the
   record at the clamped position of the CODE stack as it is now is replaced by
   the new record; with an empty CODE stack the new record is dropped. *)
Theorem C19_list_set_replaces_exactly :
  forall (FO : FloatOps) (s : state),
    (st_int s = [] -> list_set s = Ok s) /\
    (forall idx r, st_int s = idx :: r -> st_ivec s = [] -> list_set s = Ok (set_int s r)) /\
    (forall idx r ids vr, st_int s = idx :: r -> st_ivec s = ids :: vr ->
       let d := designate ids (set_ivec (set_int s r) vr) in
       let code := st_code (snd d) in
       let pos := Z.to_nat (clamped_pos idx (zlen code)) in
       zlen code <= max32 ->
       list_set s = Ok (set_code (snd d)
                          (match code with [] => [] | _ => firstn pos code ++ fst d :: skipn (S pos) code end))).
Proof. exact (fun _ : FloatOps => list_set_replaces_exactly_lemma). Qed.
Print Assumptions C19_list_set_replaces_exactly.

(* LIST.REMOVE deletes exactly the record at the clamped position. *)
Theorem C19_list_remove_deletes_exactly :
  forall (FO : FloatOps) (s : state),
    (st_int s = [] -> list_remove s = Ok s) /\
    (forall idx r, st_int s = idx :: r -> zlen (st_code s) <= max32 ->
       let code := st_code s in
       let pos := Z.to_nat (clamped_pos idx (zlen code)) in
       list_remove s = Ok (set_code (set_int s r)
                             (match code with [] => [] | _ => firstn pos code ++ skipn (S pos) code end))).
Proof. exact (fun _ : FloatOps => list_remove_deletes_exactly_lemma). Qed.
Print Assumptions C19_list_remove_deletes_exactly.

(* The position every LIST instruction computes lies inside the CODE stack:
   the index itself when it is in range, 0 below, the bottom above. *)
Theorem C19_record_address_clamped :
  forall (FO : FloatOps) (s : state) (idx : Z),
    0 < zlen (st_code s) <= max32 ->
    record_pos s idx = clamped_pos idx (zlen (st_code s)) /\
    0 <= record_pos s idx < zlen (st_code s) /\
    (0 <= idx < zlen (st_code s) -> record_pos s idx = idx) /\
    (idx < 0 -> record_pos s idx = 0) /\
    (zlen (st_code s) <= idx -> record_pos s idx = zlen (st_code s) - 1).
Proof. exact (fun _ : FloatOps => record_address_clamped_lemma). Qed.
Print Assumptions C19_record_address_clamped.

(* Item::find from counter 0 returns the n-th point of the requested kind in
   preorder; bval / ival / fval return the n-th boolean / integer / float
   inside the item or the type's default. *)
Theorem C19_find_nth_spec :
  forall (FO : FloatOps),
    (forall (pat t : item) (n : Z),
        fst (find t pat 0 n) = if n <? 0 then None else nth_error (typed_points pat t) (Z.to_nat n)) /\
    (forall (t : item) (n : Z),
        bval t n = (if n <? 0 then false else nth (Z.to_nat n) (bools_of t) false) /\
        ival t n = (if n <? 0 then 0 else nth (Z.to_nat n) (ints_of t) 0) /\
        fval t n = (if n <? 0 then f_zero else nth (Z.to_nat n) (floats_of t) f_zero)).
Proof. exact (fun _ : FloatOps => find_nth_spec_lemma). Qed.
Print Assumptions C19_find_nth_spec.

(* LIST.BVAL / IVAL / FVAL: n on top, the position below it; the value pushed is
   the n-th of its type inside the CODE item at the clamped position (a negative
   n is the usize n + 2^64, beyond every listing: the default). *)
Theorem C19_list_val_returns_nth :
  forall (FO : FloatOps) (s : state) (n idx : Z) (r : list Z),
    st_int s = n :: idx :: r ->
    min32 <= n ->
    0 < zlen (st_code s) <= max32 ->
    exists t, nth_error (st_code s) (Z.to_nat (clamped_pos idx (zlen (st_code s)))) = Some t /\
      list_bval s = Ok (push_bool (set_int s r) (nth (Z.to_nat (i32_as_usize n)) (bools_of t) false)) /\
      list_ival s = Ok (push_int (set_int s r) (nth (Z.to_nat (i32_as_usize n)) (ints_of t) 0)) /\
      list_fval s = Ok (push_float (set_int s r) (nth (Z.to_nat (i32_as_usize n)) (floats_of t) f_zero)).
Proof. exact (fun _ : FloatOps => list_vals_lemma). Qed.
Print Assumptions C19_list_val_returns_nth.

(* ---------------- non-vacuity ---------------- *)
Definition ex_state : state :=
  {| st_bool := [true; false]; st_code := [IName [65]; IList [ILit (LInt 7)]]; st_exec := [];
     st_float := [1065353216]; st_index := []; st_int := [5; 6]; st_name := [[66]];
     st_bvec := []; st_fvec := []; st_ivec := [[9; 1; 13; 9; 2; 9; 1; 3; 11]; [4; 4]];
     st_input := []; st_output := []; st_graph := []; st_bind := []; st_cfg := default_cfg;
     st_quote := false; st_send := false |}.

(* ids 9 1 13 9 2 9 1 3 11: invalid id 13, empty BOOLVECTOR (2), the third 9 finds INTEGER exhausted *)
Example C19_nonvacuous_add :
  forall FO : FloatOps,
    list_add ex_state =
    Ok (set_ivec (set_code (set_name (set_int (set_bool ex_state []) []) [])
          [IList [IName [66]; IName [65]; ILit (LBool false); ILit (LInt 6); ILit (LBool true); ILit (LInt 5)];
           IList [ILit (LInt 7)]]) [[4; 4]]).
Proof. intro FO. reflexivity. Qed.

Example C19_nonvacuous_get :
  forall FO : FloatOps,
    let s := set_exec (set_int (set_code ex_state
               [IName [65]; IList (map ILit [LBool true; LInt 3; LBool false; LFloat 0; LIntVec [1; 2]])]) [7; 9])
               [IInstr (s2l "LIST.GET"%string); IName [88]] in
    st_exec s = IInstr (s2l "LIST.GET"%string) :: [IName [88]] /\ st_int s = 7 :: [9] /\
    zlen (st_code s) <= max32 /\
    nth_error (st_code s) (Z.to_nat (clamped_pos 7 (zlen (st_code s)))) =
      Some (IList (map ILit [LBool true; LInt 3; LBool false; LFloat 0; LIntVec [1; 2]])).
Proof. intro FO. cbv. repeat split; discriminate. Qed.

Example C19_nonvacuous_roundtrip :
  forall FO : FloatOps,
    let s := set_exec (set_ivec ex_state [[9; 1; 9; 1; 5; 10]; [4; 4]])
               [IInstr (s2l "LIST.ADD"%string); ILit (LInt 0); IInstr (s2l "LIST.GET"%string)] in
    Forall (fun k => literal_id k = true) [9; 1; 9; 1; 5; 10] /\ zlen (st_code s) < max32.
Proof. intro FO. split; [repeat constructor|reflexivity]. Qed.

(* typed points: the 2nd integer (n = 1) of ( 4 ( TRUE 5 ) 6 ) is 5; there is no 4th *)
Example C19_nonvacuous_find :
  forall FO : FloatOps,
    let t := IList [ILit (LInt 4); IList [ILit (LBool true); ILit (LInt 5)]; ILit (LInt 6)] in
    ints_of t = [4; 5; 6] /\ bools_of t = [true] /\ ival t 1 = 5 /\ ival t 3 = 0 /\ bval t 0 = true.
Proof. intro FO. repeat split; reflexivity. Qed.

(* History: on the pinned tree LIST.SET clamped the position with the size of
   the CODE stack BEFORE the designated items were taken.  CODE = A B, position
   1, ids [3]: the stale position 1 lies outside the remaining stack ( B ), the
   new record ( A ) and with it the item A are dropped.  Repaired: ( ( A ) ). *)
Example C19_list_set_pinned_refuted :
  forall FO : FloatOps,
    let s := set_ivec (set_int (set_code empty_state [IName [65]; IName [66]]) [1]) [[3]] in
    list_set_pinned s = Ok (set_code empty_state [IName [66]]) /\
    list_set s = Ok (set_code empty_state [IList [IName [65]]]).
Proof. intro FO. split; reflexivity. Qed.

(* C17 — the ring buffer behaves like a bounded sequence (buffer part).
   Only statements, each closed by [exact] of a lemma from Proofs/ (or Spec/),
   with [Print Assumptions] beneath.

   Vocabulary: [buf A] is the Rust record (capacity, container, start, end, len,
   kind); [babs d b] the list of its live items, oldest first ([d] = T::default());
   [bspec_step]/[bspec_run] the bounded-sequence specification of Spec/BufSpec.v;
   [bimpl_step]/[bimpl_run] run the modelled Rust methods.
   [cap_ok k c]: capacities for which the `as i32` casts of get_index/to_string
   are exact: c <= 2^30 for the Queue kind (it casts end + i < 2c), c <= 2^31 - 1
   for the Stack kind. *)
From Coq Require Import ZArith List Bool.
From PushModel Require Import Base.Sx Base.Machine Base.ListOps Model.Buffer Spec.BufSpec
  Model.BufferMachine Proofs.BufferRefine Suites.SBuffer.
Import ListNotations.
Open Scope Z_scope.

(* The cursor invariant holds for a fresh buffer ... *)
Theorem C17_buffer_inv_new :
  forall (A : Type) (d : A) (k : kind) (c : Z), 1 <= c -> Inv (b_new d k c).
Proof. exact (@inv_new). Qed.
Print Assumptions C17_buffer_inv_new.

(* ... and every operation of the public API, under either build profile,
   returns normally (no panic) and preserves it; capacity and kind never change
   and the size never exceeds the capacity.
   Inv b  :=  1 <= cap /\ |container| = cap /\ 0 <= end < cap /\ 0 <= len <= cap
              /\ start = (end + len) mod cap. *)
Theorem C17_buffer_inv_preserved :
  forall (A : Type) (d : A) (p : profile) (b : buf A) (o : bop A),
    Inv b -> cap_ok (knd b) (cap b) -> bop_wf o ->
    exists b' u, bimpl_step d p b o = Ok (b', u) /\ Inv b' /\ cap b' = cap b /\ knd b' = knd b /\
                 ln b' <= cap b'.
Proof. exact (@buffer_inv_preserved_lemma). Qed.
Print Assumptions C17_buffer_inv_preserved.

(* One operation from any state satisfying the invariant: the spec's output,
   and the abstraction of the new state is the spec's new state. *)
Theorem C17_buffer_step_refines :
  forall (A : Type) (d : A) (p : profile) (b : buf A) (o : bop A),
    Inv b -> cap_ok (knd b) (cap b) -> bop_wf o ->
    exists b', bimpl_step d p b o = Ok (b', snd (bspec_step (knd b) (cap b) (babs d b) o)) /\
               Inv b' /\ cap b' = cap b /\ knd b' = knd b /\
               babs d b' = fst (bspec_step (knd b) (cap b) (babs d b) o).
Proof. exact (@bstep_refines). Qed.
Print Assumptions C17_buffer_step_refines.

(* Any history from any state satisfying the invariant. *)
Theorem C17_buffer_run_refines :
  forall (A : Type) (d : A) (p : profile) (ops : list (bop A)) (b : buf A),
    Inv b -> cap_ok (knd b) (cap b) -> Forall bop_wf ops ->
    exists b', bimpl_run d p b ops = Ok (b', snd (bspec_run (knd b) (cap b) (babs d b) ops)) /\
               Inv b' /\ cap b' = cap b /\ knd b' = knd b /\
               babs d b' = fst (bspec_run (knd b) (cap b) (babs d b) ops).
Proof. exact (@brun_refines). Qed.
Print Assumptions C17_buffer_run_refines.

(* THE refinement theorem.  For every element type, both kinds, every capacity
   >= 1 (within the cast bound), every build profile and every history over the
   whole public API: the ring buffer returns normally (never panics), yields
   exactly the outputs of the bounded sequence started empty, ends in a state
   whose live items are the sequence's final contents, and its size is the
   number of live items and at most the capacity. *)
Theorem C17_buffer_refines_bounded_seq :
  forall (A : Type) (d : A) (p : profile) (k : kind) (c : Z) (ops : list (bop A)),
    1 <= c -> cap_ok k c -> Forall bop_wf ops ->
    exists b', bimpl_run d p (b_new d k c) ops = Ok (b', snd (bspec_run k c [] ops)) /\
               Inv b' /\ babs d b' = fst (bspec_run k c [] ops) /\
               b_size b' = blen (babs d b') /\ b_size b' <= c.
Proof. exact (@buffer_refines_bounded_seq_lemma). Qed.
Print Assumptions C17_buffer_refines_bounded_seq.

(* The specification really is a BOUNDED sequence: no history makes it longer
   than the capacity. *)
Theorem C17_spec_bounded :
  forall (A : Type) (k : kind) (c : Z) (ops : list (bop A)) (t : list A),
    1 <= c -> blen t <= c -> blen (fst (bspec_run k c t ops)) <= c.
Proof. exact (@bspec_run_bounded). Qed.
Print Assumptions C17_spec_bounded.

(* Printing (repaired code) lists exactly the live items, newest first;
   iteration lists them oldest first; get(i) is the i-th oldest (Queue kind) or
   the i-th newest (Stack kind) and absent from position len on. *)
Theorem C17_to_string_live_items_newest_first :
  forall (A : Type) (d : A) (p : profile) (b : buf A),
    Inv b -> cap b <= max32 -> b_to_string p b = Ok (rev (babs d b)).
Proof. exact (@to_string_ok). Qed.
Print Assumptions C17_to_string_live_items_newest_first.

Theorem C17_iter_live_items_oldest_first :
  forall (A : Type) (d : A) (p : profile) (b : buf A),
    Inv b -> cap b <= max32 -> b_iter p b = Ok (babs d b).
Proof. exact (@iter_ok). Qed.
Print Assumptions C17_iter_live_items_oldest_first.

Theorem C17_get_by_kind :
  forall (A : Type) (d : A) (p : profile) (b : buf A) (i : Z),
    Inv b -> cap_ok (knd b) (cap b) -> 0 <= i < two64 ->
    b_get p b i = Ok (bget (knd b) (babs d b) i).
Proof. exact (@get_ok). Qed.
Print Assumptions C17_get_by_kind.

(* Wire level: on every case inside the quantifier the result the extracted
   model prints IS the specification's result, and the decidable
   well-formedness test of the checker is sound. *)
Theorem C17_suite_result_is_spec :
  forall (p : profile) (k : kind) (c : Z) (ops : list (bop Z)),
    1 <= c -> cap_ok k c -> forallb bop_wf_b ops = true ->
    sx_res sx_buffer_payload (buffer_result p k c ops) = buffer_expected k c ops.
Proof. exact buffer_result_is_spec. Qed.
Print Assumptions C17_suite_result_is_spec.

Theorem C17_wf_b_sound :
  forall ops : list (bop Z), forallb bop_wf_b ops = true -> Forall bop_wf ops.
Proof. exact bop_wf_b_sound. Qed.
Print Assumptions C17_wf_b_sound.

(* Non-vacuity: a concrete history with wrap-around, on both kinds, meets the
   hypotheses and produces the (non-trivial) outputs computed here. *)
Example C17_nonvacuous :
  let ops := [BPush 1; BPush 2; BPush 3; BPush 4; BPushForce 5; BPop; BPush 6; BGet 0; BGet 2; BGet 3;
              BToString; BIter; BPeekOldest; BPeekNewest; BSize; BIsFull] in
  (1 <= 3 /\ cap_ok Queue 3 /\ cap_ok Stack 3 /\ Forall bop_wf ops) /\
  bimpl_run 0 Debug (b_new 0 Queue 3) ops
    = Ok (mkbuf 3 [5; 6; 3] 2 2 3 Queue,
          [VUnit; VUnit; VUnit; VUnit; VUnit; VOA (Some 2); VUnit; VOA (Some 3); VOA (Some 6); VOA None;
           VL [6; 5; 3]; VL [3; 5; 6]; VOA (Some 3); VOA (Some 6); VZ 3; VB true]) /\
  snd (bspec_run Stack 3 [] ops)
    = [VUnit; VUnit; VUnit; VUnit; VUnit; VOA (Some 5); VUnit; VOA (Some 6); VOA (Some 2); VOA None;
       VL [6; 3; 2]; VL [2; 3; 6]; VOA (Some 2); VOA (Some 6); VZ 3; VB true].
Proof.
  cbv zeta. split; [|split; vm_compute; reflexivity].
  split; [vm_compute; discriminate|]. split; [vm_compute; discriminate|]. split; [vm_compute; discriminate|].
  repeat (constructor; [vm_compute; first [exact I | split; [discriminate|reflexivity]]|]). constructor.
Qed.

(* History: the pinned tree's to_string starts at slot `start` instead of
   `start - 1`.  After push 1, push 2 on a capacity-3 buffer the model of that
   code prints one dead (default) cell and one live item; the repaired code
   prints the two live items, newest first. *)
Example C17_to_string_pinned_refuted :
  exists b, bimpl_run 0 Debug (b_new 0 Queue 3) [BPush 1; BPush 2] = Ok (b, [VUnit; VUnit]) /\
            babs 0 b = [1; 2] /\
            b_to_string_pinned Debug b = Ok [0; 2] /\
            b_to_string Debug b = Ok [2; 1].
Proof. eexists. split; [vm_compute; reflexivity|]. vm_compute. auto. Qed.

(* The Queue-kind cast bound is sharp: with capacity 2^30 + 1, end = 2^30 and a
   full buffer (reachable by 2^30+1 pushes and 2^30 forced pushes),
   `(self.end + i) as i32` wraps for i = 2^30 and get_index returns a slot far
   outside the container, in either profile (get/copy then panic on the index). *)
Example C17_queue_cast_bound_sharp :
  let b := mkbuf 1073741825 ([] : list Z) 1073741824 1073741824 1073741825 Queue in
  b_get_index Debug b 1073741824 = Ok (Some 18446744071562067968) /\
  b_get_index Release b 1073741824 = Ok (Some 18446744071562067968).
Proof. split; vm_compute; reflexivity. Qed.

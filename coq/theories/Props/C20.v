(* C20 — neighbourhoods on index topologies (Topology in src/push/topology.rs).
   Only statements, each closed by [exact] of a lemma from Proofs/Topo*.v, with
   [Print Assumptions] beneath.

   Floats.  The theorems are parametric in the float interface [FloatOps].
   What they need from IEEE-754 binary32 is the record [FloatIntExact]
   (Proofs/TopoNbr.v): integers below 2^24 convert exactly, their sums and the
   squares of their differences (libm powf(d, 2.0) in the debug build, d * d in
   the release build) are exact, sqrt 0 = 0, sqrt is monotone, sqrt D <= R iff
   D <= R^2 for an integer R, <= is transitive, and 0 <= r makes `r < 0.0`
   false.  These are ASSUMPTIONS about binary32 — explicit premises of each
   theorem, not axioms — validated by the correspondence run: stream "f32-facts"
   of checks/C20.py evaluates every field on Rust's own f32, and the model runs
   with the Flocq binary32 instance against the real code.  The record is
   consistent (C20_float_facts_consistent).

   Size conditions [sizes_ok ntotal ndim], with e = iroot_ceil ntotal ndim:
     e^(ndim-1) < 2^64          every checked_pow of decompose_index succeeds
     ndim * (e-1)^2 < 2^24      squared distances are exact in f32
   and ntotal <= 2^31 (indices are pushed `as i32`).  Outside: more than 64
   dimensions give None (C20_known_large_ndim, a known finding).

   The pinned code computed the edge as ceil(powf(ntotal as f32, 1/ndim)),
   which overshoots on exact powers: Suites/STopology.v,
   Example C20_nedge_pinned_refuted (125 cells, 3 dimensions: edge 6, not 5). *)
From Coq Require Import ZArith List Bool Sorted.
From PushModel Require Import Base.Sx Base.Machine Base.F32 Spec.TopoSpec Model.Topology
  Proofs.TopoDigits Proofs.TopoEdge Proofs.TopoNbr.
Import ListNotations.
Open Scope Z_scope.

(* The edge computed by the code is the integer root: the least e whose
   ndim-dimensional cube holds ntotal cells. *)
Theorem C20_edge_is_smallest :
  forall ntotal ndim, 1 <= ntotal < two64 -> 1 <= ndim ->
    let e := edge_length ntotal ndim in
    e = iroot_ceil ntotal ndim /\ 1 <= e /\ ntotal <= e ^ ndim /\
    (forall e', 1 <= e' < e -> e' ^ ndim < ntotal).
Proof. exact edge_is_smallest_lemma. Qed.
Print Assumptions C20_edge_is_smallest.

(* iroot_ceil is characterised by "least e with n <= e^d". *)
Theorem C20_iroot_ceil_unique :
  forall n d e, 1 <= d -> 1 <= e -> n <= e ^ d -> (forall e', 1 <= e' < e -> e' ^ d < n) -> 1 <= n ->
    iroot_ceil n d = e.
Proof. exact iroot_ceil_unique. Qed.
Print Assumptions C20_iroot_ceil_unique.

(* Index decomposition is a bijection between [0, e^d) and [0,e)^d, with
   inverse [compose] (positional value, least significant coordinate first). *)
Theorem C20_digits_bijection :
  forall e d, 1 <= e -> 0 <= d -> e ^ (d - 1) < two64 ->
    (forall i, 0 <= i < e ^ d ->
       exists l, decompose_index i e d = Ok (Some l) /\ coord_ok e (Z.to_nat d) l /\ compose e l = i) /\
    (forall l, coord_ok e (Z.to_nat d) l ->
       0 <= compose e l < e ^ d /\ decompose_index (compose e l) e d = Ok (Some l)).
Proof. exact digits_bijection_lemma. Qed.
Print Assumptions C20_digits_bijection.

(* The neighbourhood is exactly the ascending list of the indices whose
   coordinate vectors lie within the radius, in the smallest enclosing cube;
   in both build profiles. *)
Theorem C20_nbr_is_geometric_set :
  forall (FO : FloatOps) (FIE : FloatIntExact FO) (p : profile) ntotal ndim index r,
    1 <= ntotal <= 2147483648 -> 1 <= ndim -> 0 <= index < ntotal ->
    flt r f_zero = false -> sizes_ok ntotal ndim ->
    find_neighbors p ntotal ndim index r = Ok (Some (geo_nbrs ntotal ndim index r)).
Proof. exact @nbr_is_geometric_set_lemma. Qed.
Print Assumptions C20_nbr_is_geometric_set.

Theorem C20_nbr_contains_centre :
  forall (FO : FloatOps) (FIE : FloatIntExact FO) (p : profile) ntotal ndim index r,
    1 <= ntotal <= 2147483648 -> 1 <= ndim -> 0 <= index < ntotal ->
    fle f_zero r = true -> sizes_ok ntotal ndim ->
    exists l, find_neighbors p ntotal ndim index r = Ok (Some l) /\ In index l.
Proof. exact @nbr_contains_centre_lemma. Qed.
Print Assumptions C20_nbr_contains_centre.

(* Every computed neighbourhood — for any float interface, any sizes — is
   strictly ascending, hence duplicate free, and holds valid indices only. *)
Theorem C20_nbr_valid_sorted_nodup :
  forall (FO : FloatOps) (p : profile) ntotal ndim index r l,
    ntotal <= 2147483648 ->
    find_neighbors p ntotal ndim index r = Ok (Some l) ->
    StronglySorted Z.lt l /\ NoDup l /\ Forall (fun j => 0 <= j < ntotal) l.
Proof. exact @nbr_valid_sorted_nodup_lemma. Qed.
Print Assumptions C20_nbr_valid_sorted_nodup.

Theorem C20_nbr_symmetric :
  forall (FO : FloatOps) (FIE : FloatIntExact FO) (p : profile) ntotal ndim i j r,
    1 <= ntotal <= 2147483648 -> 1 <= ndim -> 0 <= i < ntotal -> 0 <= j < ntotal ->
    flt r f_zero = false -> sizes_ok ntotal ndim ->
    exists li lj, find_neighbors p ntotal ndim i r = Ok (Some li) /\
                  find_neighbors p ntotal ndim j r = Ok (Some lj) /\
                  (In j li <-> In i lj).
Proof. exact @nbr_symmetric_lemma. Qed.
Print Assumptions C20_nbr_symmetric.

(* Monotone in the radius: needs nothing but transitivity of the float <=
   (no size condition). *)
Theorem C20_nbr_monotone_radius :
  forall (FO : FloatOps) (p : profile) ntotal ndim index r1 r2 l1 l2,
    (forall a b c, fle a b = true -> fle b c = true -> fle a c = true) ->
    fle r1 r2 = true ->
    find_neighbors p ntotal ndim index r1 = Ok (Some l1) ->
    find_neighbors p ntotal ndim index r2 = Ok (Some l2) ->
    incl l1 l2.
Proof. exact @nbr_monotone_radius_lemma. Qed.
Print Assumptions C20_nbr_monotone_radius.

(* Within the size conditions the debug and release builds agree (outside
   them powf(d, 2.0) and d * d differ in the last bit). *)
Theorem C20_profile_independent :
  forall (FO : FloatOps) (FIE : FloatIntExact FO) ntotal ndim index r,
    1 <= ntotal <= 2147483648 -> 1 <= ndim -> 0 <= index < ntotal ->
    flt r f_zero = false -> sizes_ok ntotal ndim ->
    find_neighbors Debug ntotal ndim index r = find_neighbors Release ntotal ndim index r.
Proof. exact @profile_independent_lemma. Qed.
Print Assumptions C20_profile_independent.

(* Reading of [within]: closer points are inside whenever a farther one is;
   with an integer radius R the test is D <= R^2. *)
Theorem C20_within_antitone :
  forall (FO : FloatOps) (FIE : FloatIntExact FO) D1 D2 r,
    0 <= D1 -> D1 <= D2 -> D2 < two24 -> within D2 r = true -> within D1 r = true.
Proof. exact @within_antitone_lemma. Qed.
Print Assumptions C20_within_antitone.

Theorem C20_within_integer_radius :
  forall (FO : FloatOps) (FIE : FloatIntExact FO) D R,
    0 <= D < two24 -> 0 <= R < 4096 -> within D (f_of_usize R) = (D <=? R * R).
Proof. exact @within_integer_radius_lemma. Qed.
Print Assumptions C20_within_integer_radius.

(* KnownClass 1 (known_findings.jsonl, key topology-ndim-over-64): with more
   than 64 dimensions and more than one cell no neighbourhood is computed. *)
Theorem C20_known_large_ndim :
  forall (FO : FloatOps) (p : profile) ntotal ndim index r,
    2 <= ntotal < two64 -> 65 <= ndim -> find_neighbors p ntotal ndim index r = Ok None.
Proof. exact @known_large_ndim_lemma. Qed.
Print Assumptions C20_known_large_ndim.

(* The float premises are consistent: exact-integer "floats" satisfy them. *)
Theorem C20_float_facts_consistent : FloatIntExact toy_ops.
Proof. exact float_facts_consistent. Qed.
Print Assumptions C20_float_facts_consistent.

(* Non-vacuity: the doc comment's example, 37 cells in 2 dimensions: edge 7,
   and all hypotheses of the theorems hold for it (with the toy instance
   standing for the float premises; radius 1). *)
Example C20_nonvacuous :
  iroot_ceil 37 2 = 7 /\ sizes_ok 37 2 /\ 1 <= 37 <= 2147483648 /\
  @fle toy_ops f_zero 1 = true /\ @flt toy_ops 1 f_zero = false /\
  @find_neighbors toy_ops Debug 37 2 31 1 = Ok (Some [24; 30; 31; 32]) /\
  decompose_index 31 7 2 = Ok (Some [3; 4]) /\ compose 7 [3; 4] = 31.
Proof. vm_compute. repeat split; discriminate. Qed.

(* a larger admissible instance: one million cells in 3 dimensions *)
Example C20_nonvacuous_large : sizes_ok 1000000 3 /\ iroot_ceil 1000000 3 = 100.
Proof. vm_compute. repeat split. Qed.

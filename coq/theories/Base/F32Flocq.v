(* The executable instance of [FloatOps]: Flocq's binary32 with round to
   nearest even, plus exact-arithmetic implementations of `%`, the
   float<->integer casts, `{:.k}` formatting and decimal parsing.  This file is
   *modelled* behaviour of Rust's f32 and core::fmt / core::num::dec2flt; it
   is tied to the implementation by the correspondence runs only.  Importing
   Flocq brings the classical axioms of the Reals library into the closure of
   whatever mentions this file (never the property theorems, which are
   parametric in [FloatOps]). *)
From Coq Require Import ZArith List Bool Lia.
From Flocq Require Import IEEE754.BinarySingleNaN IEEE754.Binary IEEE754.Bits Core.
From PushModel Require Import Base.Sx Base.F32.
Import ListNotations.
Open Scope Z_scope.

Definition nan_bits : Z := 2143289344.
Definition inf_bits (neg : bool) : Z := if neg then 4286578688 else 2139095040.

Definition b32_canon (x : binary32) : Z :=
  match x with
  | B754_nan _ _ _ _ _ => nan_bits
  | _ => bits_of_b32 x
  end.
Definition of_bits (z : Z) : binary32 := b32_of_bits (z mod 4294967296).

Definition fl_add a b := b32_canon (b32_plus mode_NE (of_bits a) (of_bits b)).
Definition fl_sub a b := b32_canon (b32_minus mode_NE (of_bits a) (of_bits b)).
Definition fl_mul a b := b32_canon (b32_mult mode_NE (of_bits a) (of_bits b)).
Definition fl_div a b := b32_canon (b32_div mode_NE (of_bits a) (of_bits b)).
Definition fl_sqrt a := b32_canon (b32_sqrt mode_NE (of_bits a)).
Definition fl_cmp a b := b32_compare (of_bits a) (of_bits b).

Definition Hprec32 : FLX.Prec_gt_0 24 := eq_refl.
Definition Hmax32 : Prec_lt_emax 24 128 := eq_refl.
Definition norm32 (m e : Z) (szero : bool) : binary32 :=
  Binary.binary_normalize 24 128 Hprec32 Hmax32 mode_NE m e szero.

Definition fl_of_int (z : Z) : Z := b32_canon (norm32 z 0 false).

(* finite value as (signed mantissa, exponent) *)
Definition fl_parts (z : Z) : option (Z * Z) :=
  match of_bits z with
  | B754_zero _ _ _ => Some (0, 0)
  | B754_finite _ _ s m e _ => Some (if s then Zneg m else Zpos m, e)
  | _ => None
  end.
Definition fl_sign (z : Z) : bool := 2147483648 <=? (z mod 4294967296).
Definition fl_is_nan (z : Z) : bool := match of_bits z with B754_nan _ _ _ _ _ => true | _ => false end.
Definition fl_is_inf (z : Z) : bool := match of_bits z with B754_infinity _ _ _ => true | _ => false end.

(* truncation toward zero of m * 2^e *)
Definition trunc_me (m e : Z) : Z := if 0 <=? e then m * 2 ^ e else Z.quot m (2 ^ (- e)).

Definition fl_to_int (lo hi : Z) (z : Z) : Z :=
  if fl_is_nan z then 0
  else if fl_is_inf z then (if fl_sign z then lo else hi)
  else match fl_parts z with
       | Some (m, e) => Z.max lo (Z.min hi (trunc_me m e))
       | None => 0
       end.

(* fmod: exact remainder with the sign of the dividend *)
Definition fl_rem (a b : Z) : Z :=
  if fl_is_nan a || fl_is_nan b || fl_is_inf a then nan_bits
  else if fl_is_inf b then a mod 4294967296
  else match fl_parts a, fl_parts b with
       | Some (ma, ea), Some (mb, eb) =>
           if mb =? 0 then nan_bits
           else
             let e := Z.min ea eb in
             let xa := ma * 2 ^ (ea - e) in
             let xb := mb * 2 ^ (eb - e) in
             let r := Z.rem xa xb in
             b32_canon (norm32 r e (fl_sign a))
       | _, _ => nan_bits
       end.

(* ceil / round-half-away on the exact value; results are integers, exactly representable or the value itself *)
Definition fl_ceil (z : Z) : Z :=
  match fl_parts z with
  | Some (m, e) =>
      if 0 <=? e then z mod 4294967296
      else let q := Z.div m (2 ^ (- e)) in           (* floor *)
           let c := if (m mod 2 ^ (- e)) =? 0 then q else q + 1 in
           b32_canon (norm32 c 0 (fl_sign z))
  | None => if fl_is_nan z then nan_bits else z mod 4294967296
  end.
Definition fl_round (z : Z) : Z :=
  match fl_parts z with
  | Some (m, e) =>
      if 0 <=? e then z mod 4294967296
      else let d := 2 ^ (- e) in
           let q := Z.quot (2 * Z.abs m + d) (2 * d) in (* floor(|x| + 1/2) *)
           b32_canon (norm32 (if m <? 0 then - q else q) 0 (fl_sign z))
  | None => if fl_is_nan z then nan_bits else z mod 4294967296
  end.
Definition fl_abs (z : Z) : Z := if fl_is_nan z then nan_bits else (z mod 4294967296) mod 2147483648.
Definition fl_neg (z : Z) : Z :=
  if fl_is_nan z then nan_bits else let b := z mod 4294967296 in if 2147483648 <=? b then b - 2147483648 else b + 2147483648.

(* ---- decimal printing: exact value rounded half-to-even to k decimals ---- *)
Fixpoint digits_rev (fuel : nat) (n : Z) : list Z :=
  match fuel with
  | O => []
  | S f => if n <? 10 then [48 + n] else (48 + n mod 10) :: digits_rev f (n / 10)
  end.
Definition dec_digits (n : Z) : list Z := rev (digits_rev (S (Z.to_nat (Z.log2 (Z.max n 1)))) n).
Fixpoint pad_zeros (k : nat) (l : list Z) : list Z :=
  match k with O => l | S k' => if Nat.ltb (length l) (S k') then pad_zeros k' (48 :: l) else l end.
Definition pad_to (k : nat) (l : list Z) : list Z :=
  (repeat 48 (k - length l)) ++ l.

(* round_half_even (num / den) for num >= 0, den > 0 *)
Definition rhe (num den : Z) : Z :=
  let q := num / den in
  let r2 := 2 * (num mod den) in
  if r2 <? den then q else if den <? r2 then q + 1 else if Z.even q then q else q + 1.

Definition fl_fmt (k : Z) (z : Z) : list Z :=
  if fl_is_nan z then [78; 97; 78]                                     (* NaN *)
  else if fl_is_inf z then (if fl_sign z then [45; 105; 110; 102] else [105; 110; 102])
  else match fl_parts z with
       | Some (m, e) =>
           let a := Z.abs m in
           let scale := 10 ^ k in
           let n := if 0 <=? e then a * 2 ^ e * scale else rhe (a * scale) (2 ^ (- e)) in
           let ip := n / scale in
           let fp := n mod scale in
           (if fl_sign z then [45] else []) ++ dec_digits ip ++
           (if k =? 0 then [] else 46 :: pad_to (Z.to_nat k) (dec_digits fp))
       | None => []
       end.

(* ---- decimal parsing (core::num::dec2flt grammar, correctly rounded) ---- *)
Definition is_digit (c : Z) : bool := (48 <=? c) && (c <=? 57).
Definition lower (c : Z) : Z := if (65 <=? c) && (c <=? 90) then c + 32 else c.
Fixpoint take_digits (l : list Z) (acc : Z) (cnt : Z) : Z * Z * list Z :=
  match l with
  | c :: r => if is_digit c then take_digits r (acc * 10 + (c - 48)) (cnt + 1) else (acc, cnt, l)
  | [] => (acc, cnt, l)
  end.
Fixpoint zlist_eqb (a b : list Z) : bool :=
  match a, b with
  | [], [] => true
  | x :: ra, y :: rb => (x =? y) && zlist_eqb ra rb
  | _, _ => false
  end.

(* correctly rounded m * 10^e10 for m >= 0 *)
Definition dec_to_f32 (neg : bool) (m e10 : Z) : Z :=
  if m =? 0 then (if neg then 2147483648 else 0)
  else
    let e10 := Z.max (-400) (Z.min 400 e10) in     (* beyond this the result is 0 or inf anyway for m < 10^...: guarded below *)
    let sm := if neg then - m else m in
    if 0 <=? e10 then b32_canon (norm32 (sm * 10 ^ e10) 0 neg)
    else
      let d := 10 ^ (- e10) in
      let s := Z.max 0 (Z.log2 d - Z.log2 m + 40) in
      let q := (m * 2 ^ s) / d in
      let sticky := if (m * 2 ^ s) mod d =? 0 then 0 else 1 in
      let q' := 2 * q + sticky in
      b32_canon (norm32 (if neg then - q' else q') (- s - 1) neg).

Definition fl_parse (s : list Z) : option Z :=
  let '(neg, body) := match s with
                      | 45 :: r => (true, r)
                      | 43 :: r => (false, r)
                      | _ => (false, s)
                      end in
  match body with
  | [] => None
  | _ =>
    let lw := map lower body in
    if zlist_eqb lw [105; 110; 102] || zlist_eqb lw [105; 110; 102; 105; 110; 105; 116; 121] then Some (inf_bits neg)
    else if zlist_eqb lw [110; 97; 110] then Some nan_bits
    else
      let '(ip, ic, r1) := take_digits body 0 0 in
      let '(fp, fc, r2) := match r1 with
                           | 46 :: r => take_digits r ip 0
                           | _ => (ip, 0, r1)
                           end in
      if (ic + fc) =? 0 then None
      else
        match r2 with
        | [] => Some (dec_to_f32 neg fp (- fc))
        | c :: r3 =>
            if (c =? 101) || (c =? 69) then
              let '(eneg, r4) := match r3 with
                                 | 45 :: r => (true, r)
                                 | 43 :: r => (false, r)
                                 | _ => (false, r3)
                                 end in
              let '(ev, ec, r5) := take_digits r4 0 0 in
              match r5 with
              | [] => if ec =? 0 then None
                      else
                        (* clamp a huge exponent: the digit count of the mantissa is bounded by the token length *)
                        let ev := Z.min ev 100000 in
                        Some (dec_to_f32 neg fp ((if eneg then - ev else ev) - fc))
              | _ => None
              end
            else None
        end
  end.


(* ---- f32 Display / to_string ("{}"): the shortest decimal that round-trips (Steele-White /
   dragon4 free-format, as core::num::flt2dec::strategy::dragon::format_shortest), closest to the
   value, a tie rounded up, printed without exponent.  Used as [ffmt (-1)]. ---- *)
Definition is_pow2_mant (m : Z) : bool := m =? 8388608.     (* 2^23: the smallest normal mantissa *)

(* digit generation: r/s is the remaining fraction, mp/mm the distances to the upper/lower boundary *)
Fixpoint shortest_digits (fuel : nat) (incl : bool) (r s mp mm : Z) (acc : list Z) : list Z :=
  match fuel with
  | O => rev acc
  | S f =>
      let d := (r * 10) / s in
      let r' := (r * 10) mod s in
      let mp' := mp * 10 in
      let mm' := mm * 10 in
      let down := if incl then r' <=? mm' else r' <? mm' in
      let up := if incl then s <=? r' + mp' else s <? r' + mp' in
      if negb down && negb up then shortest_digits f incl r' s mp' mm' (d :: acc)
      else if up && (negb down || (s <=? 2 * r')) then rev ((d + 1) :: acc)
      else rev (d :: acc)
  end.

(* propagate a carry (a digit 10) leftwards; returns (digits, carried out?) *)
Fixpoint carry_fix (l : list Z) : list Z * bool :=
  match l with
  | [] => ([], false)
  | d :: r => let '(r', c) := carry_fix r in
              let d' := if c then d + 1 else d in
              if d' =? 10 then (0 :: r', true) else (d' :: r', false)
  end.

(* smallest k with (r + mp) / s < 10^k  (or <= when the boundary is inclusive) *)
Fixpoint find_k (fuel : nat) (incl : bool) (r s mp : Z) (k : Z) : Z :=
  match fuel with
  | O => k
  | S f =>
      let hi := r + mp in
      let p := if 0 <=? k then s * 10 ^ k else s in
      let h := if 0 <=? k then hi else hi * 10 ^ (- k) in
      if (if incl then p <=? h else p <? h) then find_k f incl r s mp (k + 1) else k
  end.

Definition fl_display (z : Z) : list Z :=
  if fl_is_nan z then [78; 97; 78]
  else if fl_is_inf z then (if fl_sign z then [45; 105; 110; 102] else [105; 110; 102])
  else match fl_parts z with
       | Some (m0, e) =>
           let sgn := if fl_sign z then [45] else [] in
           let m := Z.abs m0 in
           if m =? 0 then sgn ++ [48]
           else
             let incl := Z.even m in
             let p2 := is_pow2_mant m && negb (e =? -149) in
             (* value = r/s, half-gaps mp/s (up) and mm/s (down) *)
             let '(r, s, mp, mm) :=
               if 0 <=? e then
                 if p2 then (m * 2 ^ e * 4, 4, 2 * 2 ^ e, 2 ^ e) else (m * 2 ^ e * 2, 2, 2 ^ e, 2 ^ e)
               else
                 if p2 then (m * 4, 2 ^ (- e) * 4, 2, 1) else (m * 2, 2 ^ (- e) * 2, 1, 1) in
             let k := find_k 120 incl r s mp (-60) in        (* 10^(k-1) <= value-ish < 10^k *)
             let '(r, s, mp, mm) := if 0 <=? k then (r, s * 10 ^ k, mp, mm)
                                    else (r * 10 ^ (- k), s, mp * 10 ^ (- k), mm * 10 ^ (- k)) in
             let '(ds, c) := carry_fix (shortest_digits 60 incl r s mp mm []) in
             let ds := if c then 1 :: ds else ds in
             let k := if c then k + 1 else k in
             (* digits ds with the decimal point after k digits *)
             let n := Z.of_nat (length ds) in
             let chars := map (fun d => 48 + d) ds in
             sgn ++
             (if k <=? 0 then [48; 46] ++ repeat 48 (Z.to_nat (- k)) ++ chars
              else if n <=? k then chars ++ repeat 48 (Z.to_nat (k - n))
              else firstn (Z.to_nat k) chars ++ [46] ++ skipn (Z.to_nat k) chars)
       | None => []
       end.

Fixpoint lookup3 (tab : list (Z * Z * Z)) (fn x : Z) : option Z :=
  match tab with
  | [] => None
  | (f, a, r) :: t => if (f =? fn) && (a =? x) then Some r else lookup3 t fn x
  end.

Definition flocq_ops (tab : list (Z * Z * Z)) : FloatOps := {|
  fadd := fl_add; fsub := fl_sub; fmul := fl_mul; fdiv := fl_div; frem := fl_rem;
  fcmp := fl_cmp;
  f_of_i32 := fl_of_int;
  f_to_i32 := fl_to_int (-2147483648) 2147483647;
  f_of_usize := fl_of_int;
  f_to_usize := fl_to_int 0 18446744073709551615;
  fsqrt := fl_sqrt; fceil := fl_ceil; fround := fl_round; fabs := fl_abs; fneg := fl_neg;
  f_is_nan := fl_is_nan;
  f_is_finite := fun z => negb (fl_is_nan z || fl_is_inf z);
  ffmt := fun k z => if k <? 0 then fl_display z else fl_fmt k z; fparse := fl_parse;
  flibm := lookup3 tab;
|}.

(* decode the oracle table of a case: ((fn arg result) ...) *)
Definition un_libm (s : sx) : option (list (Z * Z * Z)) :=
  un_list (fun e => match e with SL [SZ f; SZ a; SZ r] => Some (f, a, r) | _ => None end) s.

(* Machine integers of the Rust code: i32 / usize as ranges of Z with explicit
   overflow behaviour per build profile.  Panics are the [Panic] result. *)
From Coq Require Import ZArith List Bool Lia.
From PushModel Require Import Base.Sx.
Import ListNotations.
Open Scope Z_scope.

Inductive profile := Debug | Release.
Definition un_profile (s : sx) : option profile :=
  match s with SZ 0 => Some Debug | SZ 1 => Some Release | _ => None end.

Definition min32 : Z := -2147483648.
Definition max32 : Z := 2147483647.
Definition two32 : Z := 4294967296.
Definition two64 : Z := 18446744073709551616.

Definition in_i32 (z : Z) : bool := (min32 <=? z) && (z <=? max32).
Definition in_usize (z : Z) : bool := (0 <=? z) && (z <? two64).

(* two's complement wrap into i32 *)
Definition wrap32 (z : Z) : Z := (z + 2147483648) mod two32 - 2147483648.
Definition wrap64u (z : Z) : Z := z mod two64.

(* arithmetic that panics on overflow in debug builds and wraps in release *)
Definition chk32 (p : profile) (r : Z) : res Z :=
  if in_i32 r then Ok r else match p with Debug => Panic | Release => Ok (wrap32 r) end.
Definition add32 (p : profile) (a b : Z) : res Z := chk32 p (a + b).
Definition sub32 (p : profile) (a b : Z) : res Z := chk32 p (a - b).
Definition mul32 (p : profile) (a b : Z) : res Z := chk32 p (a * b).
(* `/` and `%` on i32: division by zero and MIN / -1 panic in every profile *)
Definition div32 (a b : Z) : res Z :=
  if b =? 0 then Panic else if (a =? min32) && (b =? -1) then Panic else Ok (Z.quot a b).
Definition rem32 (a b : Z) : res Z :=
  if b =? 0 then Panic else if (a =? min32) && (b =? -1) then Panic else Ok (Z.rem a b).
Definition abs32 (p : profile) (a : Z) : res Z := chk32 p (Z.abs a).
(* the wrapping_* family (used by the repaired code) *)
Definition wadd32 (a b : Z) : Z := wrap32 (a + b).
Definition wsub32 (a b : Z) : Z := wrap32 (a - b).
Definition wmul32 (a b : Z) : Z := wrap32 (a * b).
Definition wdiv32 (a b : Z) : Z := wrap32 (Z.quot a b).
Definition wrem32 (a b : Z) : Z := if (a =? min32) && (b =? -1) then 0 else Z.rem a b.
Definition wabs32 (a : Z) : Z := wrap32 (Z.abs a).

(* usize arithmetic *)
Definition usub (p : profile) (a b : Z) : res Z :=
  if b <=? a then Ok (a - b) else match p with Debug => Panic | Release => Ok (a - b + two64) end.
Definition uadd (p : profile) (a b : Z) : res Z :=
  if a + b <? two64 then Ok (a + b) else match p with Debug => Panic | Release => Ok (a + b - two64) end.

(* `x as usize` for an i32 x on a 64-bit target (sign extension) *)
Definition i32_as_usize (i : Z) : Z := if i <? 0 then i + two64 else i.
(* `x as i32` for a usize x (truncation) *)
Definition usize_as_i32 (u : Z) : Z := wrap32 u.

(* i32::max(i32::min(a, b), 0)-style clamps appear all over the code *)
Definition clamp_idx (idx len : Z) : Z := Z.max (Z.min (len - 1) idx) 0.

(* rem_euclid on i32 (divisor non-zero, no MIN/-1 case: panics like `%`) *)
Definition rem_euclid32 (a b : Z) : res Z :=
  if b =? 0 then Panic else if (a =? min32) && (b =? -1) then Panic else Ok (a mod Z.abs b).

Lemma wrap32_id z : in_i32 z = true -> wrap32 z = z.
Proof.
  unfold in_i32, wrap32, min32, max32, two32. intro H.
  apply andb_prop in H as [H1 H2]. apply Z.leb_le in H1, H2.
  rewrite Z.mod_small; lia.
Qed.

Lemma wrap32_in z : in_i32 (wrap32 z) = true.
Proof.
  unfold in_i32, wrap32, min32, max32, two32.
  pose proof (Z.mod_pos_bound (z + 2147483648) 4294967296 ltac:(lia)).
  apply andb_true_intro; split; apply Z.leb_le; lia.
Qed.

Lemma clamp_idx_range idx len : 0 < len -> 0 <= clamp_idx idx len < len.
Proof. unfold clamp_idx. lia. Qed.

Lemma clamp_idx_id idx len : 0 <= idx < len -> clamp_idx idx len = idx.
Proof. unfold clamp_idx. lia. Qed.

(* Positional list surgery shared by models and specs, with the reversal
   lemmas that connect a bottom-first Vec to a top-first sequence. *)
From Coq Require Import ZArith List Bool Lia Arith.
Import ListNotations.

Section ListOps.
  Context {A : Type}.

  Fixpoint upd (t : list A) (k : nat) (a : A) : list A :=
    match t, k with
    | [], _ => []
    | _ :: r, O => a :: r
    | x :: r, S k' => x :: upd r k' a
    end.
  Fixpoint del (t : list A) (k : nat) : list A :=
    match t, k with
    | [], _ => []
    | _ :: r, O => r
    | x :: r, S k' => x :: del r k'
    end.
  Fixpoint ins (t : list A) (k : nat) (a : A) {struct k} : list A :=
    match k, t with
    | O, _ => a :: t
    | S k', x :: r => x :: ins r k' a
    | S _, [] => [a]
    end.

  Lemma upd_length t k a : length (upd t k a) = length t.
  Proof. revert k; induction t as [|x r IH]; intros [|k]; simpl; auto. Qed.

  Lemma del_length t k : k < length t -> length (del t k) = length t - 1.
  Proof.
    revert k; induction t as [|x r IH]; intros [|k] H; simpl in *; try lia.
    rewrite IH by lia. destruct r; simpl in *; lia.
  Qed.

  Lemma del_beyond t k : length t <= k -> del t k = t.
  Proof.
    revert k; induction t as [|x r IH]; intros [|k] H; simpl in *; auto; try lia.
    f_equal. apply IH. lia.
  Qed.

  Lemma ins_length t k a : length (ins t k a) = S (length t).
  Proof. revert t; induction k as [|k IH]; intros [|x r]; simpl; auto. Qed.

  Lemma upd_app_l t u k a : k < length t -> upd (t ++ u) k a = upd t k a ++ u.
  Proof.
    revert k; induction t as [|x r IH]; intros [|k] H; simpl in *; try lia; auto.
    f_equal. apply IH. lia.
  Qed.
  Lemma upd_app_r t u k a : length t <= k -> upd (t ++ u) k a = t ++ upd u (k - length t) a.
  Proof.
    revert k; induction t as [|x r IH]; intros k H; simpl in *.
    - now rewrite Nat.sub_0_r.
    - destruct k as [|k]; [lia|]. simpl. f_equal. apply IH. lia.
  Qed.
  Lemma del_app_l t u k : k < length t -> del (t ++ u) k = del t k ++ u.
  Proof.
    revert k; induction t as [|x r IH]; intros [|k] H; simpl in *; try lia; auto.
    f_equal. apply IH. lia.
  Qed.
  Lemma del_app_r t u k : length t <= k -> del (t ++ u) k = t ++ del u (k - length t).
  Proof.
    revert k; induction t as [|x r IH]; intros k H; simpl in *.
    - now rewrite Nat.sub_0_r.
    - destruct k as [|k]; [lia|]. simpl. f_equal. apply IH. lia.
  Qed.
  Lemma ins_app_l t u k a : k <= length t -> ins (t ++ u) k a = ins t k a ++ u.
  Proof.
    revert k; induction t as [|x r IH]; intros [|k] H; simpl in *; try lia; auto.
    f_equal. apply IH. lia.
  Qed.
  Lemma ins_app_r t u k a : length t <= k -> k <= length t + length u ->
    ins (t ++ u) k a = t ++ ins u (k - length t) a.
  Proof.
    revert k; induction t as [|x r IH]; intros k H H2; simpl in *.
    - now rewrite Nat.sub_0_r.
    - destruct k as [|k]; [lia|]. simpl. f_equal. apply IH; lia.
  Qed.

  Lemma nth_error_rev (v : list A) i :
    i < length v -> nth_error (rev v) i = nth_error v (length v - S i).
  Proof.
    induction v as [|x r IH]; intros H; simpl in *; [lia|].
    destruct (Nat.eq_dec i (length r)) as [->|Hne].
    - rewrite nth_error_app2 by (rewrite rev_length; lia).
      rewrite rev_length, !Nat.sub_diag. reflexivity.
    - rewrite nth_error_app1 by (rewrite rev_length; lia).
      rewrite IH by lia.
      replace (length r - i) with (S (length r - S i)) by lia. reflexivity.
  Qed.

  Lemma upd_rev (v : list A) k a :
    k < length v -> rev (upd v (length v - S k) a) = upd (rev v) k a.
  Proof.
    induction v as [|x r IH]; intros H; simpl in *; [lia|].
    destruct (Nat.eq_dec k (length r)) as [->|Hne].
    - rewrite Nat.sub_diag. simpl.
      rewrite upd_app_r by (rewrite rev_length; lia).
      rewrite rev_length, Nat.sub_diag. reflexivity.
    - replace (length r - k) with (S (length r - S k)) by lia. simpl.
      rewrite IH by lia. rewrite upd_app_l by (rewrite rev_length; lia). reflexivity.
  Qed.

  Lemma del_rev (v : list A) k :
    k < length v -> rev (del v (length v - S k)) = del (rev v) k.
  Proof.
    induction v as [|x r IH]; intros H; simpl in *; [lia|].
    destruct (Nat.eq_dec k (length r)) as [->|Hne].
    - rewrite Nat.sub_diag. simpl.
      rewrite del_app_r by (rewrite rev_length; lia).
      rewrite rev_length, Nat.sub_diag. simpl. now rewrite app_nil_r.
    - replace (length r - k) with (S (length r - S k)) by lia. simpl.
      rewrite IH by lia. rewrite del_app_l by (rewrite rev_length; lia). reflexivity.
  Qed.

  Lemma ins_mid (t u : list A) a : ins (t ++ u) (length t) a = t ++ a :: u.
  Proof. induction t as [|x r IH]; simpl; [destruct u; reflexivity|]. now rewrite IH. Qed.

  Lemma ins_rev (v : list A) k a :
    k <= length v -> rev (ins v (length v - k) a) = ins (rev v) k a.
  Proof.
    intros H.
    rewrite <- (firstn_skipn (length v - k) v) at 1 3.
    set (v1 := firstn (length v - k) v). set (v2 := skipn (length v - k) v).
    assert (L1 : length v1 = length v - k) by (unfold v1; rewrite firstn_length; lia).
    assert (L2 : length v2 = k) by (unfold v2; rewrite skipn_length; lia).
    rewrite <- L1 at 1. rewrite ins_mid. rewrite rev_app_distr. simpl.
    rewrite rev_app_distr. rewrite <- app_assoc. simpl.
    rewrite <- L2. rewrite <- (rev_length v2). now rewrite ins_mid.
  Qed.

  Lemma rev_skipn (v : list A) n : rev (skipn (length v - n) v) = firstn n (rev v).
  Proof. symmetry; apply firstn_rev. Qed.
  Lemma rev_firstn (v : list A) n : rev (firstn (length v - n) v) = skipn n (rev v).
  Proof. symmetry; apply skipn_rev. Qed.
End ListOps.

(* The float interface of the model.  An f32 is its IEEE-754 bit pattern
   (a Z in [0, 2^32)); every NaN is the canonical quiet NaN 0x7fc00000 (Rust
   leaves payload and sign of a computed NaN unspecified; the harness
   canonicalises the same way).  All model definitions and all structural
   theorems are parametric in [FloatOps]; the executable instance (Flocq
   binary32, Base/F32Flocq.v) is only plugged in for extraction. *)
From Coq Require Import ZArith List Bool.
From PushModel Require Import Base.Sx.
Open Scope Z_scope.

Definition f32 := Z.

(* ids of the libm functions answered by the oracle table *)
Definition FN_SIN := 1.  Definition FN_COS := 2.  Definition FN_TAN := 3.
Definition FN_EXP := 4.  Definition FN_POWF := 5.

(* wire decoding: every NaN bit pattern (any sign, any payload) is the canonical NaN for the model; the
   implementation receives the raw pattern, so a dependence on NaN sign / payload shows up as a disagreement *)
Definition f_canon (z : Z) : f32 :=
  if ((z / 8388608) mod 256 =? 255) && negb (z mod 8388608 =? 0) then 2143289344 else z.

Class FloatOps := {
  fadd : f32 -> f32 -> f32;
  fsub : f32 -> f32 -> f32;
  fmul : f32 -> f32 -> f32;
  fdiv : f32 -> f32 -> f32;
  frem : f32 -> f32 -> f32;                      (* Rust's `%` on f32 (fmodf) *)
  fcmp : f32 -> f32 -> option comparison;        (* None = unordered (a NaN operand) *)
  f_of_i32 : Z -> f32;                           (* `i as f32` *)
  f_to_i32 : f32 -> Z;                           (* `x as i32` : saturating, NaN -> 0 *)
  f_of_usize : Z -> f32;                         (* `u as f32` *)
  f_to_usize : f32 -> Z;                         (* `x as usize` : saturating, NaN -> 0 *)
  fsqrt : f32 -> f32;
  fceil : f32 -> f32;
  fround : f32 -> f32;                           (* f32::round : half away from zero *)
  fabs : f32 -> f32;
  fneg : f32 -> f32;
  f_is_nan : f32 -> bool;
  f_is_finite : f32 -> bool;
  ffmt : Z -> f32 -> list Z;                     (* k >= 0: format!("{:.k}", x); k < 0: format!("{}", x) (shortest round-trip Display) *)
  fparse : list Z -> option f32;                 (* str::parse::<f32>() *)
  flibm : Z -> Z -> option f32;                  (* oracle: libm function id, argument bits *)
}.

Section Derived.
  Context {FO : FloatOps}.
  Definition flt (a b : f32) : bool := match fcmp a b with Some Lt => true | _ => false end.
  Definition fgt (a b : f32) : bool := match fcmp a b with Some Gt => true | _ => false end.
  Definition feq (a b : f32) : bool := match fcmp a b with Some Eq => true | _ => false end.
  Definition fle (a b : f32) : bool := match fcmp a b with Some Lt | Some Eq => true | _ => false end.
  Definition fge (a b : f32) : bool := match fcmp a b with Some Gt | Some Eq => true | _ => false end.
  Definition f_zero : f32 := 0.
  Definition f_one : f32 := 1065353216.          (* 0x3f800000 *)
  Definition f_nan : f32 := 2143289344.          (* 0x7fc00000 *)
  Definition libm1 (fn : Z) (x : f32) : res f32 :=
    match flibm fn x with Some y => Ok y | None => Need fn x end.
  Definition libm2 (fn : Z) (x y : f32) : res f32 :=
    match flibm fn (x * 4294967296 + y) with Some r => Ok r | None => Need fn (x * 4294967296 + y) end.
End Derived.

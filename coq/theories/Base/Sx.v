(* Sx: the one wire format shared by the Rust harness, the extracted model and
   the case generators.  A value is an integer or a list of values; a case is
   "<suite> <sx>" on one line, a result is one sx on one line.  All encoding
   and decoding of cases happens in Gallina (so it is part of what the
   correspondence check validates); the OCaml driver only parses and prints
   this format. *)
From Coq Require Import ZArith List Bool.
Import ListNotations.
Open Scope Z_scope.

Inductive sx : Type :=
| SZ (z : Z)
| SL (l : list sx).

(* result of running implementation code: normal return, panic, or a request
   for a value of an external function the model cannot compute (libm: sin,
   cos, tan, exp, powf) — the check answers it from the implementation's own
   libm and re-runs the case; see Base/F32.v *)
Inductive res (A : Type) : Type :=
| Ok (a : A)
| Panic
| Need (fn arg : Z).
Arguments Ok {A} a.
Arguments Panic {A}.
Arguments Need {A} fn arg.

Definition rbind {A B} (r : res A) (f : A -> res B) : res B :=
  match r with Ok a => f a | Panic => Panic | Need fn x => Need fn x end.
Definition rmap {A B} (f : A -> B) (r : res A) : res B :=
  match r with Ok a => Ok (f a) | Panic => Panic | Need fn x => Need fn x end.
Notation "'let!' x ':=' r 'in' k" := (rbind r (fun x => k))
  (at level 200, x pattern, r at level 100, k at level 200).

Definition is_ok {A} (r : res A) : bool := match r with Ok _ => true | _ => false end.

(* wire encodings *)
Definition sx_bool (b : bool) : sx := SZ (if b then 1 else 0).
Definition sx_list {A} (f : A -> sx) (l : list A) : sx := SL (map f l).
Definition sx_opt {A} (f : A -> sx) (o : option A) : sx :=
  match o with None => SL [] | Some a => SL [f a] end.
Definition sx_res {A} (f : A -> sx) (r : res A) : sx :=
  match r with Ok a => SL [SZ 0; f a] | Panic => SL [SZ 1] | Need fn x => SL [SZ 2; SZ fn; SZ x] end.
Definition sx_unit : sx := SL [].
Definition sx_pair {A B} (f : A -> sx) (g : B -> sx) (p : A * B) : sx :=
  SL [f (fst p); g (snd p)].

(* a malformed case: never produced by the generators; distinct from any result *)
Definition sx_bad : sx := SL [SZ (-77); SZ (-77); SZ (-77)].

Definition un_z (s : sx) : option Z := match s with SZ z => Some z | _ => None end.
Definition un_l (s : sx) : option (list sx) := match s with SL l => Some l | _ => None end.
Definition un_bool (s : sx) : option bool :=
  match s with SZ 0 => Some false | SZ 1 => Some true | _ => None end.

Fixpoint un_all {A} (f : sx -> option A) (l : list sx) : option (list A) :=
  match l with
  | [] => Some []
  | x :: r => match f x, un_all f r with
              | Some a, Some ar => Some (a :: ar)
              | _, _ => None
              end
  end.
Definition un_list {A} (f : sx -> option A) (s : sx) : option (list A) :=
  match s with SL l => un_all f l | _ => None end.
Definition un_zlist := un_list un_z.

Definition obind {A B} (o : option A) (f : A -> option B) : option B :=
  match o with Some a => f a | None => None end.
Notation "'let?' x ':=' r 'in' k" := (obind r (fun x => k))
  (at level 200, x pattern, r at level 100, k at level 200).

(* decidable equality on sx, used by checkers *)
Fixpoint sx_eqb (a b : sx) {struct a} : bool :=
  match a, b with
  | SZ x, SZ y => Z.eqb x y
  | SL la, SL lb =>
      (fix go (la lb : list sx) {struct la} : bool :=
         match la, lb with
         | [], [] => true
         | x :: ra, y :: rb => sx_eqb x y && go ra rb
         | _, _ => false
         end) la lb
  | _, _ => false
  end.

"""Common machinery of /verif/bin/check.

A property module (checks/Cxx.py) provides:
  PROPERTY      id
  PROPS_VO      e.g. "Props/C16"   (Coq file holding only the property theorems)
  AXIOMS_OK     allow-listed axiom names (default: none)
  streams(seed, tier) -> list of Stream
  KNOWN_SUITE   optional dict suite -> suite computing the KnownClass key of a case
  extra(ctx)    optional hook for property-specific runtime checks
A Stream is a named generator of case lines "<suite> <sx>" plus the name of the
checker suite which evaluates the property predicate on an observed result.
"""
import json, os, random, re, subprocess, sys, time, hashlib, itertools
sys.setrecursionlimit(100000)

ROOT = os.path.dirname(os.path.dirname(os.path.abspath(__file__)))
CACHE = os.path.join(ROOT, ".cache")
DRIVER = os.path.join(CACHE, "ocaml", "pm_driver")
IMPL = {0: os.path.join(CACHE, "target", "debug", "impl_run"),
        1: os.path.join(CACHE, "target", "release", "impl_run")}
NPROC = 16
BAD = "(-77 -77 -77)"

FORBIDDEN = re.compile(r"\b(Admitted|admit|Axiom|Axioms|Parameter|Parameters|Conjecture|Conjectures|Abort All)\b|Unset\s+Guard|bypass_check|type-in-type|impredicative-set|Admit\s+Obligations|Unset\s+Universe\s+Checking|Unset\s+Positivity")


class Stream:
    def __init__(self, name, suite, checker, cases, note="", nontrivial=None, project=None):
        self.name, self.suite, self.checker = name, suite, checker
        self.cases = cases          # list of sx strings (without the suite prefix)
        self.note = note
        self.nontrivial = nontrivial  # optional predicate on (case, result) strings
        # optional str -> str applied to the IMPLEMENTATION's result before it is diffed against the model's
        # (the checker still sees the full result).  For suites whose results contain values that the model
        # cannot predict (unseeded RNG draws): the projection keeps the deterministic part.  Default: identity.
        self.project = project or (lambda r: r)


class CheckError(SystemExit):
    """an infrastructure failure (no verdict): exit status 2 unless caught (the shrinker catches it: a candidate the
    machinery cannot evaluate is simply not taken)"""
    def __init__(self, msg, code=2):
        SystemExit.__init__(self, code)
        self.msg = msg


_QUIET = [0]


def die(msg, code=2):
    if not _QUIET[0]:
        print("CHECK-ERROR: " + msg)
        if os.environ.get("VCHECK_TRACE"):
            import traceback
            traceback.print_stack()
    raise CheckError(msg, code)


def run(cmd, timeout, inp=None, cwd=None):
    return subprocess.run(cmd, input=inp, capture_output=True, text=True, timeout=timeout, cwd=cwd)


# --------------------------------------------------------------------------
# sx helpers (python side: nested lists of ints)
def sx_str(v):
    if isinstance(v, bool):
        return "1" if v else "0"
    if isinstance(v, int):
        return str(v)
    return "(" + " ".join(sx_str(x) for x in v) + ")"


def sx_parse(s):
    toks = s.replace("(", " ( ").replace(")", " ) ").split()
    pos = 0

    def val():
        nonlocal pos
        t = toks[pos]
        pos += 1
        if t == "(":
            out = []
            while toks[pos] != ")":
                out.append(val())
            pos += 1
            return out
        return int(t)
    v = val()
    assert pos == len(toks)
    return v


def case_profile(case):
    """Convention: the first element of every case is the build profile (0 debug, 1 release)."""
    m = re.match(r"\(\s*([01])[\s)]", case)
    return int(m.group(1)) if m else 0


# --------------------------------------------------------------------------
# builds
def build_model():
    r = run([os.path.join(ROOT, "bin", "build-model")], 3300)
    if r.returncode != 0:
        print(r.stdout[-3000:]); print(r.stderr[-3000:])
        die("Coq development or extraction does not build (a proof obligation no longer checks)")


def build_harness():
    r = run([os.path.join(ROOT, "bin", "build-harness")], 3700)
    if r.returncode != 0:
        print(r.stdout[-3000:]); print(r.stderr[-3000:])
        die("/repo's working tree does not compile with the harness; no verdict", 2)


def forbidden_scan():
    bad = []
    for d, _, fs in os.walk(os.path.join(ROOT, "coq", "theories")):
        for f in fs:
            if f.endswith(".v"):
                p = os.path.join(d, f)
                txt = open(p).read()
                txt = re.sub(r"\(\*.*?\*\)", "", txt, flags=re.S)
                for m in FORBIDDEN.finditer(txt):
                    bad.append("%s: %s" % (p, m.group(0)))
                # Variable/Hypothesis/Context outside a Section
                depth = 0
                for line in txt.splitlines():
                    if re.match(r"\s*(Section|Module)\s", line):
                        depth += 1
                    elif re.match(r"\s*End\s", line):
                        depth -= 1
                    elif depth == 0 and re.match(r"\s*(Variable|Variables|Hypothesis|Hypotheses|Context)\b", line):
                        bad.append("%s: %s outside a Section" % (p, line.strip()))
    return bad


def theorems_of(props_vo):
    p = os.path.join(ROOT, "coq", "theories", props_vo + ".v")
    txt = open(p).read()
    txt = re.sub(r"\(\*.*?\*\)", "", txt, flags=re.S)
    return re.findall(r"^\s*(?:Theorem|Lemma|Corollary)\s+(\w+)", txt, flags=re.M), \
        re.findall(r"^\s*Example\s+(\w+)", txt, flags=re.M)


def assumptions(props_vo, names, workdir):
    """Print Assumptions for every theorem, through a scratch file compiled against the built library."""
    os.makedirs(workdir, exist_ok=True)
    mod = props_vo.replace("/", ".")
    lines = ["From PushModel Require Import %s." % mod]
    for n in names:
        lines.append('Redirect "%s" Print Assumptions %s.' % (os.path.join(workdir, "assum_" + n), n))
    src = os.path.join(workdir, "assum.v")
    open(src, "w").write("\n".join(lines) + "\n")
    r = run(["coqc", "-Q", os.path.join(ROOT, "coq", "theories"), "PushModel", "-w", "-notation-overridden", src], 900, cwd=workdir)
    if r.returncode != 0:
        print(r.stdout[-2000:], r.stderr[-2000:])
        die("Print Assumptions scratch file does not compile: a property theorem is missing")
    out = {}
    for n in names:
        txt = open(os.path.join(workdir, "assum_" + n + ".out")).read()
        if "Closed under the global context" in txt:
            out[n] = []
        else:
            out[n] = [a for a in re.findall(r"^([A-Za-z_][\w.']*)\s*:", txt, flags=re.M) if a != "Axioms"]
    return out


# --------------------------------------------------------------------------
# running cases
def _shard(lines, n, per_shard=200):
    k = max(1, min(n, (len(lines) + per_shard - 1) // per_shard))
    return [lines[i::k] for i in range(k)], k


def _run_sharded(binary, lines, timeout, per_shard=200):
    """Runs a line-in/line-out worker over the lines with up to NPROC processes, preserving order."""
    if not lines:
        return []
    shards, k = _shard(lines, NPROC, per_shard)
    procs = []
    for sh in shards:
        p = subprocess.Popen([binary], stdin=subprocess.PIPE, stdout=subprocess.PIPE, stderr=subprocess.PIPE, text=True,
                             preexec_fn=_limits)
        procs.append((p, sh))
    # feed concurrently using threads to avoid pipe deadlock
    import threading
    results = [None] * len(procs)

    def work(ix):
        p, sh = procs[ix]
        try:
            o, e = p.communicate("\n".join(sh) + "\n", timeout=timeout)
        except subprocess.TimeoutExpired:
            p.kill()
            o, e = p.communicate()
            e = (e or "") + "\nTIMEOUT"
        results[ix] = (o, e, p.returncode)
    ths = [threading.Thread(target=work, args=(i,)) for i in range(len(procs))]
    for t in ths: t.start()
    for t in ths: t.join()
    out = [None] * len(lines)
    for ix, (o, e, rc) in enumerate(results):
        got = o.splitlines()
        sh = procs[ix][1]
        if len(got) != len(sh):
            # the worker died (abort, stack overflow, OOM, timeout) at case number len(got)
            got = got + ["(9 %d)" % (rc if rc is not None else -1)] + ["(8)"] * (len(sh) - len(got) - 1)
        for j, g in enumerate(got[:len(sh)]):
            out[ix + j * k] = g
    return out


def _limits():
    import resource
    resource.setrlimit(resource.RLIMIT_AS, (6 << 30, 6 << 30))
    resource.setrlimit(resource.RLIMIT_CORE, (0, 0))


def run_impl(lines, timeout=240, per_shard=200):
    """lines: '<suite> <sx>'; routed to the debug or release binary by the case's profile field."""
    idx = {0: [], 1: []}
    for i, l in enumerate(lines):
        idx[case_profile(l.split(" ", 1)[1])].append(i)
    out = [None] * len(lines)
    for prof in (0, 1):
        sub = [lines[i] for i in idx[prof]]
        res = _run_sharded(IMPL[prof], sub, timeout, per_shard)
        # a worker that died: rerun the remaining cases one process per case to attribute the abort
        res = _resolve_aborts(IMPL[prof], sub, res, timeout)
        for i, r in zip(idx[prof], res):
            out[i] = r
    return out


def _resolve_aborts(binary, lines, res, timeout):
    """cases behind a worker that died (abort, OOM, hang) are re-run in fresh workers, a few rounds, short timeout;
    what is still unattributed afterwards is reported as (9 -100)"""
    pending = [i for i, r in enumerate(res) if r == "(8)"]
    rounds = 0
    while pending and rounds < 8:
        rounds += 1
        sub = [lines[i] for i in pending]
        got = _run_sharded(binary, sub, max(60, timeout // 4) if timeout > 240 else min(timeout, 60))
        for i, g in zip(pending, got):
            res[i] = g
        pending = [i for i, r in enumerate(res) if r == "(8)"]
    for i in pending:
        res[i] = "(9 -100)"
    return res


def run_model(lines, timeout=1800, tolerant=False):
    """tolerant: a case on which the model does not answer (killed, out of time) yields "(9 -100)" instead of ending the check
    (for PROBES that only select cases; never for verdicts)"""
    res = _run_sharded(DRIVER, lines, timeout)
    if tolerant:
        res = _resolve_aborts(DRIVER, lines, res, timeout)          # the cases behind a dead worker are re-run in fresh ones
        return [("(9 -100)" if (r is None or r.startswith("(9") or r == "(8)") else r) for r in res]
    for l, r in zip(lines, res):
        if r is None or r.startswith("(9") or r == "(8)":
            try:
                open(os.path.join(ROOT, ".cache", "model_died_case.txt"), "w").write(l + "\n")
            except Exception:
                pass
            die("the extracted model died on case (full text in .cache/model_died_case.txt): %s" % l[:300])
    return res


# --------------------------------------------------------------------------
# shrinking: generic over sx — drop list elements while the case still fails the same way
def shrink(case, still_fails, budget=400):
    cur = sx_parse(case)
    tries = 0

    def paths(v, pre=()):
        if isinstance(v, list):
            for i, x in enumerate(v):
                yield pre + (i,)
                yield from paths(x, pre + (i,))

    def remove(v, path):
        if len(path) == 1:
            return v[:path[0]] + v[path[0] + 1:]
        return v[:path[0]] + [remove(v[path[0]], path[1:])] + v[path[0] + 1:]
    progress = True
    while progress and tries < budget:
        progress = False
        # longest paths first removes leaves of histories before structure
        for p in sorted(paths(cur), key=lambda q: (-len(q), -q[-1])):
            if len(p) < 2:
                continue
            cand = remove(cur, p)
            tries += 1
            if tries > budget:
                break
            _QUIET[0] += 1
            try:
                ok = still_fails(sx_str(cand))
            except CheckError:
                ok = False          # the candidate cannot be evaluated (e.g. the model needs too long on it): not taken
            finally:
                _QUIET[0] -= 1
            if ok:
                cur = cand
                progress = True
                break
    return sx_str(cur)


# --------------------------------------------------------------------------
class Ctx:
    def __init__(self, mod, tier, seed, replay=None):
        self.mod, self.tier, self.seed = mod, tier, seed
        self.prop = mod.PROPERTY
        self.t0 = time.time()
        self.violations = []     # (what, replay path)
        self.known_hits = {}     # key -> description
        self.stats = {}
        self.samples = []
        self.evaluations = 0
        self.nontrivial = set()
        self.disagreements = 0
        self.workdir = os.path.join(CACHE, "run", self.prop)
        os.makedirs(self.workdir, exist_ok=True)
        os.makedirs(os.path.join(ROOT, "replays"), exist_ok=True)
        self.known = [json.loads(l) for l in open(os.path.join(ROOT, "known_findings.jsonl")) if l.strip()]
        self.known = [k for k in self.known if k["property"] == self.prop]

    def write_replay(self, tag, obj):
        h = hashlib.sha1(json.dumps(obj, sort_keys=True).encode()).hexdigest()[:10]
        p = os.path.join(ROOT, "replays", "%s_%s_%s.json" % (self.prop, tag, h))
        json.dump(obj, open(p, "w"), indent=1)
        return p

    def violation(self, what, obj, nofail=False):
        p = self.write_replay("nofail" if nofail else "viol", obj)
        self.violations.append((what, p, nofail))

    def known_key_of(self, suite, case, observed, stream=None):
        """KnownClass of a (case, observed result), computed by the extracted Coq predicate (0 = none)."""
        ks = getattr(stream, "known_suite", None) or getattr(self.mod, "KNOWN_SUITE", {}).get(suite)
        if not ks:
            return 0
        if getattr(self.mod, "KNOWN_ARGS", "case") == "pair":
            r = run_checker(ks, [case], [observed])[0]
        else:
            r = run_model(["%s %s" % (ks, case)])[0]
        try:
            return int(r)
        except ValueError:
            return 0

    def known_keys_of(self, suite, cases, observeds, stream=None):
        """KnownClass of many (case, observed) pairs in one batch."""
        ks = getattr(stream, "known_suite", None) or getattr(self.mod, "KNOWN_SUITE", {}).get(suite)
        if not ks or not cases:
            return [0] * len(cases)
        if getattr(self.mod, "KNOWN_ARGS", "case") == "pair":
            rs = run_checker(ks, list(cases), list(observeds))
        else:
            rs = run_model(["%s %s" % (ks, c) for c in cases])
        out = []
        for r in rs:
            try:
                out.append(int(r))
            except ValueError:
                out.append(0)
        return out


def resolve_needs(lines, max_rounds=60):
    """libm oracle protocol: a model result (2 fn arg) asks for a libm value; the harness computes it with the
    implementation's own libm (suite "libm") and the case is re-run with its table (2nd element) extended.
    Returns (model results, final lines)."""
    lines = list(lines)
    res = run_model(lines)
    for _ in range(max_rounds):
        need = [(i, r) for i, r in enumerate(res) if r.startswith("(2 ")]
        if not need:
            break
        qs = sorted(set(tuple(sx_parse(r)[1:]) for _, r in need))
        ans = run_impl(["libm (0 (%s))" % " ".join("(%d %d)" % q for q in qs)])[0]
        table = {(a[0], a[1]): a[2] for a in sx_parse(ans)[1]}
        for i, r in need:
            q = tuple(sx_parse(r)[1:])
            suite, sx = lines[i].split(" ", 1)
            v = sx_parse(sx)
            v[1] = v[1] + [[q[0], q[1], table[q]]]
            lines[i] = suite + " " + sx_str(v)
        sub = run_model([lines[i] for i, _ in need])
        for (i, _), r in zip(need, sub):
            res[i] = r
    return res, lines


def run_checker(checker, cases, outs):
    """evaluates the property predicate suite on (case, observed) pairs; resolves libm requests of the checker too"""
    fix = lambda o: o if not (o.startswith("(9") or o == "(8)") else "(1)"
    lines = ["%s (%s %s)" % (checker, c, fix(o)) for c, o in zip(cases, outs)]
    res = run_model(lines)
    for _ in range(60):
        need = [i for i, r in enumerate(res) if r.startswith("(2 ")]
        if not need:
            break
        qs = sorted(set(tuple(sx_parse(res[i])[1:]) for i in need))
        ans = run_impl(["libm (0 (%s))" % " ".join("(%d %d)" % q for q in qs)])[0]
        table = {(a[0], a[1]): a[2] for a in sx_parse(ans)[1]}
        cases = list(cases)
        for i in need:
            q = tuple(sx_parse(res[i])[1:])
            v = sx_parse(cases[i]); v[1] = v[1] + [[q[0], q[1], table[q]]]; cases[i] = sx_str(v)
            lines[i] = "%s (%s %s)" % (checker, cases[i], fix(outs[i]))
        sub = run_model([lines[i] for i in need])
        for i, r in zip(need, sub):
            res[i] = r
    return res


def evaluate_stream(ctx, st):
    """Differential run of one stream + property predicate on the implementation's own outputs."""
    lines = ["%s %s" % (st.suite, c) for c in st.cases]
    impl = run_impl(lines, timeout=getattr(st, "timeout", 240), per_shard=getattr(st, "per_shard", 200))
    model, lines = resolve_needs(lines)
    st.cases = [l.split(" ", 1)[1] for l in lines]
    verdicts = run_checker(st.checker, st.cases, impl) if st.checker else ["1"] * len(lines)
    n = len(lines)
    ctx.evaluations += n
    stat = ctx.stats.setdefault(st.name, {"cases": 0, "impl_panics": 0, "disagree": 0, "pred_fail": 0, "out_of_scope": 0, "note": st.note})
    stat["cases"] += n
    fails, disag = [], []
    for c, i, m, v in zip(st.cases, impl, model, verdicts):
        if i == "(1)" or i.startswith("(9"):
            stat["impl_panics"] += 1
        if v == "2":
            stat["out_of_scope"] += 1
        if i == BAD or m == BAD or v == BAD:
            die("malformed case reached a suite (generator bug): %s %s" % (st.suite, c[:300]))
        if v == "0":
            fails.append((c, i, m))
        elif st.project(i) != m:
            disag.append((c, i, m, v))
        if v != "2":
            ctx.nontrivial.add(hashlib.sha1((st.suite + c).encode()).digest()[:8])
    stat["pred_fail"] += len(fails)
    stat["disagree"] += len(disag)
    ctx.disagreements += len(disag)
    if len(ctx.samples) < 12 and st.cases:
        k = (ctx.seed + len(ctx.samples)) % len(st.cases)
        ctx.samples.append({"stream": st.name, "case": "%s %s" % (st.suite, st.cases[k][:400]), "impl": impl[k][:300], "model": model[k][:300], "predicate": verdicts[k]})
    # property predicate fails on the implementation's own output -> violation (or a listed finding)
    seen_keys = set()
    # every failing case is classified (a listed finding must not hide a new failure further down the stream)
    keys = ctx.known_keys_of(st.suite, [f[0] for f in fails], [f[1] for f in fails], st)
    for (c, i, m), key in zip(fails, keys):
        kf = next((k for k in ctx.known if k.get("class_id") == key and k["status"] == "known"), None) if key else None
        if kf:
            ctx.known_hits[kf["key"]] = kf["what"]
            continue
        if ("pf", st.suite) in seen_keys:
            continue
        seen_keys.add(("pf", st.suite))

        def still(cand, suite=st.suite, chk=st.checker, st=st):
            o = run_impl(["%s %s" % (suite, cand)], timeout=min(getattr(st, "timeout", 240), 60))[0]
            if o == BAD:
                return False
            v = run_checker(chk, [cand], [o])[0]
            return v == "0" and not ctx.known_key_of(suite, cand, o, st)
        # a case on which the implementation does not answer (worker killed after the stream's time limit) is reported as it is:
        # every shrinking step would wait for the limit again
        small = c if i.startswith("(9") else shrink(c, still)
        o = i if small == c else run_impl(["%s %s" % (st.suite, small)], timeout=min(getattr(st, "timeout", 240), 60))[0]
        mo = resolve_needs(["%s %s" % (st.suite, small)])[0][0]
        ctx.violation("property predicate fails on the implementation's output", {
            "property": ctx.prop, "kind": "predicate-fails", "stream": st.name, "suite": st.suite, "checker": st.checker,
            "case": small, "original_case": c, "impl_output": o, "model_output": mo,
            "how_to_replay": "bin/check %s --replay <this file>" % ctx.prop})
    # correspondence broken but the predicate still holds there: search for a failing input
    if disag:
        c, i, m, v = disag[0]

        def still2(cand, suite=st.suite, proj=st.project):
            o = run_impl(["%s %s" % (suite, cand)])[0]
            mo = resolve_needs(["%s %s" % (suite, cand)])[0][0]
            return o != BAD and proj(o) != mo
        small = shrink(c, still2)
        ctx.pending_nofail = getattr(ctx, "pending_nofail", [])
        ctx.pending_nofail.append({
            "property": ctx.prop, "kind": "correspondence-broken", "stream": st.name, "suite": st.suite,
            "case": small, "original_case": c, "impl_output": run_impl(["%s %s" % (st.suite, small)])[0],
            "model_output": resolve_needs(["%s %s" % (st.suite, small)])[0][0], "predicate_on_impl_output": v,
            "disagreements_in_stream": len(disag),
            "no_longer_checks": "correspondence suite '%s' (model %s vs implementation) behind theorems of %s" % (st.suite, st.suite, ctx.mod.PROPS_VO)})


def replay_known(ctx):
    """Every listed finding is replayed on the implementation; it is reported as KNOWN-FINDING while it still fails."""
    for k in ctx.known:
        if k["status"] != "known" or "witness" not in k:
            continue
        w = k["witness"]
        o = run_impl(["%s %s" % (w["suite"], w["case"])])[0]
        v = run_checker(w["checker"], [w["case"]], [o])[0]
        if v == "0":
            ctx.known_hits[k["key"]] = k["what"]


def replay_fixed(ctx):
    """Regression: witnesses of repaired defects must now satisfy the predicate (a fixed entry suppresses nothing)."""
    for k in ctx.known:
        if k["status"] != "fixed" or "witness" not in k:
            continue
        w = k["witness"]
        o = run_impl(["%s %s" % (w["suite"], w["case"])])[0]
        v = run_checker(w["checker"], [w["case"]], [o])[0]
        ctx.evaluations += 1
        if v == "0":
            ctx.violation("a repaired defect has returned: " + k["what"], {
                "property": ctx.prop, "kind": "regression-of-fixed-finding", "suite": w["suite"], "checker": w["checker"],
                "case": w["case"], "impl_output": o, "finding": k["key"]})


def finish(ctx, proof):
    # correspondence broken without a failing input: widen the search before giving up
    pend = getattr(ctx, "pending_nofail", [])
    if pend and not [v for v in ctx.violations if not v[2]]:
        if hasattr(ctx.mod, "streams") and ctx.tier == "quick":
            _QUIET[0] += 1
            try:
                for st in ctx.mod.streams(ctx.seed + 7919, "search"):
                    try:
                        evaluate_stream(ctx, st)
                    except CheckError as e:       # the widened search is best effort: the broken correspondence is reported anyway
                        ctx.stats.setdefault("search-aborted", {"cases": 0, "note": ""})["note"] += "stream %s: %s; " % (st.name, e.msg[:160])
            finally:
                _QUIET[0] -= 1
        if not [v for v in ctx.violations if not v[2]]:
            ctx.violation("correspondence broken; no failing input found", pend[0], nofail=True)
    wall = time.time() - ctx.t0
    for key, what in sorted(ctx.known_hits.items()):
        print("KNOWN-FINDING: property=%s %s [%s]" % (ctx.prop, what, key))
    ev = {
        "property_id": ctx.prop, "tier": ctx.tier, "seed": ctx.seed, "level": "proof",
        "coverage": {
            "obligations": proof["obligations"], "discharged": proof["discharged"],
            "checker_cmd": proof["checker_cmd"], "trusted_base": proof["trusted_base"],
            "theorems": proof["theorems"], "examples": proof["examples"], "axioms_reported": proof["axioms"],
            "evaluations": ctx.evaluations, "distinct_nontrivial": len(ctx.nontrivial),
            "rule": "correspondence cases: every case is run on the implementation (built from /repo's working tree) and on the extracted Coq model, results diffed, and the property's decidable predicate is evaluated on the implementation's own output; a case is non-trivial when it lies inside the property's quantifier (predicate verdict 0/1, not 2); distinct by (suite, case) hash",
            "traces_validated_against_impl": ctx.evaluations,
            "disagreements_checked": ctx.disagreements,
            "streams": ctx.stats, "samples": ctx.samples,
            "known_findings_reproduced": sorted(ctx.known_hits),
        },
        "assumptions": proof["assumptions"],
        "wall_s": round(wall, 2), "violations": len(ctx.violations),
    }
    os.makedirs(os.path.join(ROOT, "evidence"), exist_ok=True)
    json.dump(ev, open(os.path.join(ROOT, "evidence", ctx.prop + ".json"), "w"), indent=1)
    if ctx.violations:
        for what, p, nofail in ctx.violations:
            print("VIOLATION property=%s replay=%s%s" % (ctx.prop, p, " no-failing-input-found" if nofail else ""))
            print("  " + what)
        sys.exit(1)
    print("OK property=%s tier=%s evaluations=%d theorems=%d wall=%.1fs" % (ctx.prop, ctx.tier, ctx.evaluations, proof["obligations"], wall))
    sys.exit(0)


def registry_names():
    """(names registered by InstructionSet::load(), names registered in the model)"""
    dec = lambda r: set("".join(chr(c) for c in n) for n in sx_parse(r)[1])
    return dec(run_impl(["names (0)"])[0]), dec(run_model(["names (0)"])[0])


def check_registry(ctx, prefix=None):
    """the model's registry and the implementation's must register the same instruction names"""
    impl, model = registry_names()
    if prefix:
        impl = set(n for n in impl if n.startswith(prefix)); model = set(n for n in model if n.startswith(prefix))       # str or tuple of str
    ctx.evaluations += 1
    ctx.stats["registry-names"] = {"cases": 1, "implementation": len(impl), "model": len(model),
                                   "note": "set of registered instruction names, implementation vs model"}
    if impl != model:
        ctx.violation("the instruction registry changed: names differ between implementation and model", {
            "property": ctx.prop, "kind": "correspondence-broken", "suite": "names", "case": "(0)",
            "only_in_implementation": sorted(impl - model), "only_in_model": sorted(model - impl),
            "no_longer_checks": "registry correspondence (suite 'names')"}, nofail=True)


FLOCQ_AXIOMS = ["Classical_Prop.classic", "FunctionalExtensionality.functional_extensionality_dep",
                "ClassicalDedekindReals.sig_forall_dec", "ClassicalDedekindReals.sig_not_dec"]

TRUSTED_COMMON = [
    "Coq 8.16.1 kernel (coqc full .vo build; vm_compute used only in Examples / finite sweeps); no native_compute",
    "the model is hand-written Gallina; its tie to /repo is the correspondence run of this check (differential, bounded by the generators)",
    "extraction: ExtrOcamlBasic only (bool, option, unit, list, prod, sumbool, sumor -> OCaml natives); no Extract Constant / Extract Inductive of our own; Z/positive/N stay Coq datatypes; OCaml 4.13.1 ocamlopt",
    "ocaml/driver.ml (sx parser/printer, decimal <-> binary integer conversion, dispatch table generated from suites.txt)",
    "harness/ (Rust): state construction through pushr's public API, catch_unwind, canonical sx printing",
    "gen/*.py + lib/vcheck.py (case generation, sharding, diff, shrinking, known-finding matching)",
]


def prove(ctx):
    """Build the Coq development, check the property file's theorems and their axioms."""
    build_model()
    bad = forbidden_scan()
    if bad:
        die("forbidden construct in the Coq development: " + "; ".join(bad[:5]))
    files = ctx.mod.PROPS_VO if isinstance(ctx.mod.PROPS_VO, (list, tuple)) else [ctx.mod.PROPS_VO]
    thms, exs, ax = [], [], {}
    tfilter = getattr(ctx.mod, "THEOREM_FILTER", {})        # e.g. {"Props/FloatFacts": r"FF_(C09|fle)_"}: this property's share of a shared file
    for f in files:
        t, e = theorems_of(f)
        if f in tfilter:
            t = [x for x in t if re.match(tfilter[f], x)]
            e = []
        if not t:
            die("no theorem in " + f)
        ax.update(assumptions(f, t, os.path.join(ctx.workdir, f.replace("/", "_"))))
        thms += t; exs += e
    allow = set(getattr(ctx.mod, "AXIOMS_OK", []))
    by_file = getattr(ctx.mod, "AXIOMS_OK_BY_FILE", {})     # e.g. {"Props/C11f": [the classical axioms Flocq imports]}
    owner = {}
    for f in files:
        for t in theorems_of(f)[0]:
            owner.setdefault(t, f)
    discharged = 0
    for t in thms:
        extra = [a for a in ax[t] if a not in allow and a not in by_file.get(owner.get(t), [])]
        if extra:
            die("theorem %s depends on axioms outside the allow-list: %s" % (t, extra))
        discharged += 1
    allax = sorted(set(a for t in thms for a in ax[t]))
    return {
        "obligations": len(thms), "discharged": discharged, "theorems": thms, "examples": exs, "axioms": allax,
        "checker_cmd": "bin/build-model (coq_makefile + make, full .vo) ; coqc Print Assumptions over %s" % ", ".join(files),
        "trusted_base": TRUSTED_COMMON + ["axioms (Print Assumptions over all theorems of %s): %s" % (", ".join(files), ", ".join(allax) if allax else "none — closed under the global context")] + list(getattr(ctx.mod, "TRUSTED_EXTRA", [])),
        "assumptions": list(getattr(ctx.mod, "ASSUMPTIONS", [])),
    }


def long_time_limit(ctx, prop="C15"):
    """600 slow steps (each measured >= 8 ms) under eval_time_limit = 1100 ms: TimeLimitExceeded, well before the program ends"""
    limit_ms, nsteps, n, res, line, r = 1100, 600, 1 << 22, None, "", ""
    while True:
        line = "slowrun (1 () %d %d %d)" % (nsteps, limit_ms, n)
        r = run_impl([line], timeout=180)[0]
        try:
            v = sx_parse(r)
            res = v[1] if v[0] == 0 else None
        except Exception:
            res = None
        if res is None or res[3] >= 8000 or n >= (1 << 27):
            break
        n *= 2
    ctx.evaluations += 1
    st = ctx.stats.setdefault("time-limit-over-one-second", {"cases": 0, "note": "%d x INTVECTOR.SUM on a vector sized so that one step takes >= 8 ms, eval_time_limit = %d ms, release build: run() returns TimeLimitExceeded with most of the program still on EXEC" % (nsteps, limit_ms), "runs": []})
    st["cases"] += 1
    st["runs"].append({"elements": n, "result": res})
    if res is None:
        ctx.violation("slow-step run did not return", {"property": prop, "kind": "runtime", "suite": "slowrun", "case": line.split(" ", 1)[1], "impl_output": r[:200]})
    elif res[3] >= 8000 and not (res[0] == 2 and res[1] > 0 and res[4] < (limit_ms + 1500) * 1000):
        ctx.violation("run() ignored a %d ms time limit: outcome %d after %d ms, %d of %d steps executed" % (limit_ms, res[0], res[4] // 1000, nsteps - res[1], nsteps),
                      {"property": prop, "kind": "runtime", "suite": "slowrun", "case": line.split(" ", 1)[1], "impl_output": r[:200]})



def new_names(ctx, prop):
    """the oracle assumption on draw_name (Model/RandomGen.v): names::Generator yields lower-case words joined by '-',
    which the parser always reads back as the identifier itself.  Checked on N draws; when the alphabet changed (the
    correspondence to the oracle description is broken) a long search looks for a drawn name that is NOT read back as a name."""
    n = {"quick": 400000, "thorough": 4000000, "search": 1000000}[ctx.tier]
    line = "rand.newnames (1 () %d)" % n
    r = run_impl([line], timeout=600)[0]
    ctx.evaluations += 1
    stat = ctx.stats.setdefault("new-name-alphabet", {"cases": 0, "draws": 0, "outside_alphabet": 0, "not_read_back_as_name": 0,
                                "note": "CodeGenerator::new_random_name(): every drawn name is lower-case words joined by '-' (the oracle assumption of draw_name) and is read back by the parser as the identifier itself"})
    stat["cases"] += 1; stat["draws"] += n
    try:
        v = sx_parse(r)[1]
        outside, first_out, notname, first_bad = v[0], "".join(chr(c) for c in v[1]), v[2], "".join(chr(c) for c in v[3])
    except Exception:
        ctx.violation("drawing new names failed", {"property": prop, "kind": "runtime", "suite": "rand.newnames", "case": line.split(" ", 1)[1], "impl_output": r[:200]})
        return
    stat["outside_alphabet"] += outside; stat["not_read_back_as_name"] += notname
    if outside and not notname:
        # search: up to 3e7 further draws for a name that lexes as something else
        for _ in range(6):
            r2 = run_impl(["rand.newnames (1 () 5000000)"], timeout=900)[0]
            stat["draws"] += 5000000
            try:
                v2 = sx_parse(r2)[1]
            except Exception:
                break
            if v2[2]:
                notname, first_bad = v2[2], "".join(chr(c) for c in v2[3])
                break
    if notname:
        ctx.violation("a freshly drawn name is not a name for the parser: `%s` (the generated program does not print/parse back, C11)" % first_bad,
                      {"property": prop, "kind": "predicate-fails", "suite": "rand.newnames", "case": "(1 () %d)" % n, "drawn_name": first_bad, "example_outside_alphabet": first_out,
                       "how_to_replay": "parse the drawn name with PushParser::parse_program: it is not an Identifier; new names now leave the alphabet [a-z]+(-[a-z]+)+"})
    elif outside:
        ctx.violation("new names left the alphabet the oracle model assumes (e.g. `%s`); no drawn name that fails to parse back was found" % first_out,
                      {"property": prop, "kind": "correspondence-broken", "suite": "rand.newnames", "case": "(1 () %d)" % n, "example_outside_alphabet": first_out,
                       "no_longer_checks": "oracle assumption of draw_name (Model/RandomGen.v): names::Generator output is lower-case words joined by '-'"}, nofail=True)




def do_replay(mod, path):
    obj = json.load(open(path))
    build_model(); build_harness()
    line = "%s %s" % (obj["suite"], obj["case"])
    o = run_impl([line])[0]
    m = resolve_needs([line])[0][0]
    print("case  : " + line)
    print("impl  : " + o)
    print("model : " + m)
    if obj.get("checker"):
        v = run_checker(obj["checker"], [obj["case"]], [o])[0]
        print("property predicate on the implementation's output: " + {"1": "holds", "0": "FAILS", "2": "outside quantifier"}.get(v, v))
        sys.exit(1 if v == "0" else 0)
    sys.exit(0 if o == m else 1)


def main(mod, argv):
    tier = "quick"
    replay = None
    args = list(argv)
    while args:
        a = args.pop(0)
        if a in ("quick", "thorough"):
            tier = a
        elif a == "--replay":
            replay = args.pop(0)
    tier = os.environ.get("VERIF_TIER", tier) if tier == "quick" and os.environ.get("VERIF_TIER") in ("quick", "thorough") else tier
    seed = int(os.environ.get("VERIF_SEED", "20260930"))
    if replay:
        do_replay(mod, replay)
    ctx = Ctx(mod, tier, seed)
    proof = prove(ctx)
    build_harness()
    replay_known(ctx)
    replay_fixed(ctx)
    corpus = os.path.join(ROOT, "corpus", ctx.prop + ".txt")
    if os.path.exists(corpus):
        by = {}
        for l in open(corpus):
            l = l.strip()
            if l and not l.startswith("#"):
                suite, chk, case = l.split(" ", 2)
                by.setdefault((suite, chk), []).append(case)
        for (suite, chk), cases in by.items():
            evaluate_stream(ctx, Stream("corpus:" + suite, suite, chk, cases, "minimised past failures, run first"))
    for st in mod.streams(seed, tier):
        evaluate_stream(ctx, st)
    if hasattr(mod, "extra"):
        mod.extra(ctx)
    if "registry-names" not in ctx.stats:
        check_registry(ctx, getattr(mod, "REGISTRY_PREFIX", None))
    finish(ctx, proof)

//! The wire format shared with the extracted Coq model: an integer or a list.
#[derive(Clone, Debug, PartialEq)]
pub enum Sx {
    Z(i128),
    L(Vec<Sx>),
}

impl Sx {
    pub fn z<T: Into<i128>>(v: T) -> Sx { Sx::Z(v.into()) }
    pub fn u(v: usize) -> Sx { Sx::Z(v as i128) }
    pub fn b(v: bool) -> Sx { Sx::Z(if v { 1 } else { 0 }) }
    pub fn unit() -> Sx { Sx::L(vec![]) }
    pub fn bad() -> Sx { Sx::L(vec![Sx::Z(-77), Sx::Z(-77), Sx::Z(-77)]) }
    pub fn opt<T>(o: Option<T>, f: impl Fn(T) -> Sx) -> Sx {
        match o { None => Sx::L(vec![]), Some(v) => Sx::L(vec![f(v)]) }
    }
    pub fn list<T>(l: impl IntoIterator<Item = T>, f: impl Fn(T) -> Sx) -> Sx {
        Sx::L(l.into_iter().map(f).collect())
    }
    /// string as list of Unicode scalar values
    pub fn str(s: &str) -> Sx { Sx::L(s.chars().map(|c| Sx::Z(c as i128)).collect()) }

    pub fn as_z(&self) -> Option<i128> { if let Sx::Z(v) = self { Some(*v) } else { None } }
    pub fn as_l(&self) -> Option<&Vec<Sx>> { if let Sx::L(v) = self { Some(v) } else { None } }
    pub fn as_i32(&self) -> Option<i32> { self.as_z().and_then(|v| if v >= i32::MIN as i128 && v <= i32::MAX as i128 { Some(v as i32) } else { None }) }
    pub fn as_usize(&self) -> Option<usize> { self.as_z().and_then(|v| if v >= 0 && v <= usize::MAX as i128 { Some(v as usize) } else { None }) }
    pub fn as_bool(&self) -> Option<bool> { match self.as_z() { Some(0) => Some(false), Some(1) => Some(true), _ => None } }
    pub fn as_f32(&self) -> Option<f32> { self.as_z().and_then(|v| if v >= 0 && v <= u32::MAX as i128 { Some(f32::from_bits(v as u32)) } else { None }) }
    pub fn as_string(&self) -> Option<String> {
        let mut s = String::new();
        for c in self.as_l()? { s.push(std::char::from_u32(c.as_z()? as u32)?); }
        Some(s)
    }
    pub fn zs(&self) -> Option<Vec<i128>> { self.as_l()?.iter().map(|x| x.as_z()).collect() }

    pub fn print(&self, out: &mut String) {
        match self {
            Sx::Z(v) => out.push_str(&v.to_string()),
            Sx::L(l) => {
                out.push('(');
                for (i, x) in l.iter().enumerate() {
                    if i > 0 { out.push(' '); }
                    x.print(out);
                }
                out.push(')');
            }
        }
    }

    pub fn parse(s: &str) -> Result<Sx, String> {
        let b = s.as_bytes();
        let mut i = 0usize;
        let v = Sx::parse_at(b, &mut i)?;
        while i < b.len() && (b[i] == b' ' || b[i] == b'\t') { i += 1; }
        if i != b.len() { return Err("trailing input".into()); }
        Ok(v)
    }
    fn parse_at(b: &[u8], i: &mut usize) -> Result<Sx, String> {
        while *i < b.len() && (b[*i] == b' ' || b[*i] == b'\t') { *i += 1; }
        if *i >= b.len() { return Err("unexpected end".into()); }
        if b[*i] == b'(' {
            *i += 1;
            let mut items = Vec::new();
            loop {
                while *i < b.len() && (b[*i] == b' ' || b[*i] == b'\t') { *i += 1; }
                if *i >= b.len() { return Err("unclosed list".into()); }
                if b[*i] == b')' { *i += 1; return Ok(Sx::L(items)); }
                items.push(Sx::parse_at(b, i)?);
            }
        } else {
            let j = *i;
            while *i < b.len() && b[*i] != b' ' && b[*i] != b'(' && b[*i] != b')' { *i += 1; }
            let t = std::str::from_utf8(&b[j..*i]).unwrap();
            t.parse::<i128>().map(Sx::Z).map_err(|e| format!("bad integer {}: {}", t, e))
        }
    }
}

/// f32 as its bit pattern with every NaN collapsed to one canonical pattern
pub fn f32_sx(x: f32) -> Sx {
    if x.is_nan() { Sx::Z(0x7fc00000) } else { Sx::Z(x.to_bits() as i128) }
}

//! impl_run: reads "<suite> <sx>" lines, runs the case against the real pushr
//! code (built from /repo's working tree), prints "(0 <payload>)" when the code
//! returned and "(1)" when it panicked.  A suite that returns None was given a
//! case it cannot decode: printed as the BAD marker.
mod sx;
mod conv;
mod suites {
    include!(concat!(env!("OUT_DIR"), "/suites_gen.rs"));
}
use std::io::{self, BufRead, Write};
use std::panic;
use sx::Sx;

fn main() {
    panic::set_hook(Box::new(|_| {}));
    let table = suites::table();
    let stdin = io::stdin();
    let stdout = io::stdout();
    let mut out = io::BufWriter::new(stdout.lock());
    let mut buf = String::new();
    for line in stdin.lock().lines() {
        let line = line.unwrap();
        if line.is_empty() || line.starts_with('#') { continue; }
        let sp = line.find(' ').expect("bad case line");
        let suite = &line[..sp];
        let f = table.iter().find(|(n, _)| *n == suite).unwrap_or_else(|| { eprintln!("unknown suite {}", suite); std::process::exit(3) }).1;
        let input = Sx::parse(&line[sp + 1..]).expect("bad sx");
        let r = panic::catch_unwind(|| f(&input));
        buf.clear();
        match r {
            Ok(v) => {
                if v == Sx::bad() { v.print(&mut buf); } else { Sx::L(vec![Sx::Z(0), v]).print(&mut buf); }
            }
            Err(_) => buf.push_str("(1)"),
        }
        writeln!(out, "{}", buf).unwrap();
        // flush per case: if a later case aborts the process, every finished result has been delivered
        out.flush().unwrap();
    }
    out.flush().unwrap();
}

//! Conversions between pushr values and the sx wire format (see coq/theories/Suites/SItem.v).
use crate::sx::{f32_sx, Sx};
use pushr::push::index::Index;
use pushr::push::item::{Item, PushType};
use pushr::push::vector::{BoolVector, FloatVector, IntVector};

pub fn item_to_sx(it: &Item) -> Sx {
    match it {
        Item::List { items } => {
            let mut v = vec![Sx::Z(0)];
            for i in 0..items.size() {
                v.push(item_to_sx(items.get(i).unwrap()));
            }
            Sx::L(v)
        }
        Item::InstructionMeta { name } => Sx::L(vec![Sx::Z(1), Sx::str(name)]),
        Item::Identifier { name } => Sx::L(vec![Sx::Z(2), Sx::str(name)]),
        Item::Literal { push_type } => match push_type {
            PushType::Bool { val } => Sx::L(vec![Sx::Z(3), Sx::b(*val)]),
            PushType::Int { val } => Sx::L(vec![Sx::Z(4), Sx::z(*val)]),
            PushType::Index { val } => Sx::L(vec![Sx::Z(5), Sx::u(val.current), Sx::u(val.destination)]),
            PushType::Float { val } => Sx::L(vec![Sx::Z(6), f32_sx(*val)]),
            PushType::BoolVector { val } => Sx::L(vec![Sx::Z(7), Sx::list(val.values.iter(), |b| Sx::b(*b))]),
            PushType::IntVector { val } => Sx::L(vec![Sx::Z(8), Sx::list(val.values.iter(), |z| Sx::z(*z))]),
            PushType::FloatVector { val } => Sx::L(vec![Sx::Z(9), Sx::list(val.values.iter(), |f| f32_sx(*f))]),
            PushType::Graph { val: _ } => Sx::L(vec![Sx::Z(10)]),
        },
    }
}

pub fn sx_to_item(s: &Sx) -> Option<Item> {
    let l = s.as_l()?;
    let tag = l.get(0)?.as_z()?;
    Some(match tag {
        0 => {
            // children are top-first on the wire; Item::list takes bottom-first
            let mut cs: Vec<Item> = l[1..].iter().map(sx_to_item).collect::<Option<_>>()?;
            cs.reverse();
            Item::list(cs)
        }
        1 => Item::instruction(l.get(1)?.as_string()?),
        2 => Item::name(l.get(1)?.as_string()?),
        3 => Item::bool(l.get(1)?.as_bool()?),
        4 => Item::int(l.get(1)?.as_i32()?),
        5 => Item::index(Index { current: l.get(1)?.as_usize()?, destination: l.get(2)?.as_usize()? }),
        6 => Item::float(l.get(1)?.as_f32()?),
        7 => Item::boolvec(BoolVector::new(l.get(1)?.as_l()?.iter().map(|b| b.as_bool()).collect::<Option<_>>()?)),
        8 => Item::intvec(IntVector::new(l.get(1)?.as_l()?.iter().map(|z| z.as_i32()).collect::<Option<_>>()?)),
        9 => Item::floatvec(FloatVector::new(l.get(1)?.as_l()?.iter().map(|f| f.as_f32()).collect::<Option<_>>()?)),
        _ => return None,
    })
}

// ---------------------------------------------------------------------------------------------
// Whole PushState <-> sx (see coq/theories/Suites/SState.v)
use pushr::push::configuration::PushConfiguration;
use pushr::push::graph::Graph;
use pushr::push::io::PushMessage;
use pushr::push::stack::{PushPrint, PushStack};
use pushr::push::state::PushState;
use std::collections::HashMap;

fn stack_to_sx<T: Clone + std::fmt::Display + PartialEq + PushPrint>(st: &PushStack<T>, f: impl Fn(&T) -> Sx) -> Sx {
    let mut v = Vec::new();
    for i in 0..st.size() {
        v.push(f(st.get(i).unwrap()));
    }
    Sx::L(v)
}

fn msg_to_sx(m: &PushMessage) -> Sx {
    Sx::L(vec![Sx::list(m.header.values.iter(), |z| Sx::z(*z)), Sx::list(m.body.values.iter(), |b| Sx::b(*b))])
}

/// Node ids are process-global; they are renamed in order of first occurrence while the state is
/// written out (graphs oldest first; within a graph nodes sorted by id, edges by destination).
pub struct IdMap {
    pub to_canon: HashMap<usize, i128>,
}
impl IdMap {
    pub fn new() -> Self { IdMap { to_canon: HashMap::new() } }
    pub fn canon(&mut self, id: usize) -> i128 {
        let n = self.to_canon.len() as i128 + 1;
        *self.to_canon.entry(id).or_insert(n)
    }
}

pub fn graph_to_sx(g: &Graph, ids: &mut IdMap) -> Sx {
    let mut nodes: Vec<(usize, i32)> = g.nodes.iter().map(|(k, n)| (*k, n.get_state())).collect();
    nodes.sort();
    let ns: Vec<Sx> = nodes.iter().map(|(k, s)| Sx::L(vec![Sx::Z(ids.canon(*k)), Sx::z(*s)])).collect();
    let mut dests: Vec<usize> = g.edges.keys().cloned().collect();
    dests.sort();
    let mut es = Vec::new();
    for d in dests {
        let inc: Vec<Sx> = g.edges[&d].iter().map(|e| Sx::L(vec![Sx::Z(ids.canon(e.get_origin_id())), f32_sx(e.get_weight())])).collect();
        es.push(Sx::L(vec![Sx::Z(ids.canon(d)), Sx::L(inc)]));
    }
    Sx::L(vec![Sx::L(ns), Sx::L(es)])
}

pub fn state_to_sx(s: &PushState) -> Sx {
    let mut ids = IdMap::new();
    let mut binds: Vec<(&String, &Item)> = s.name_bindings.iter().collect();
    binds.sort_by(|a, b| a.0.cmp(b.0));
    let c = &s.configuration;
    let graphs: Vec<Sx> = s.graph_stack.iter().map(|g| graph_to_sx(g, &mut ids)).collect();
    Sx::L(vec![
        stack_to_sx(&s.bool_stack, |b| Sx::b(*b)),
        stack_to_sx(&s.code_stack, item_to_sx),
        stack_to_sx(&s.exec_stack, item_to_sx),
        stack_to_sx(&s.float_stack, |f| f32_sx(*f)),
        stack_to_sx(&s.index_stack, |i| Sx::L(vec![Sx::u(i.current), Sx::u(i.destination)])),
        stack_to_sx(&s.int_stack, |z| Sx::z(*z)),
        stack_to_sx(&s.name_stack, |n| Sx::str(n)),
        stack_to_sx(&s.bool_vector_stack, |v| Sx::list(v.values.iter(), |b| Sx::b(*b))),
        stack_to_sx(&s.float_vector_stack, |v| Sx::list(v.values.iter(), |f| f32_sx(*f))),
        stack_to_sx(&s.int_vector_stack, |v| Sx::list(v.values.iter(), |z| Sx::z(*z))),
        Sx::L(s.input_stack.iter().map(msg_to_sx).collect()),
        Sx::L(s.output_stack.iter().map(msg_to_sx).collect()),
        Sx::L(graphs),
        Sx::L(binds.iter().map(|(k, v)| Sx::L(vec![Sx::str(k), item_to_sx(v)])).collect()),
        Sx::L(vec![
            f32_sx(c.max_random_float), f32_sx(c.min_random_float), Sx::z(c.max_random_integer), Sx::z(c.min_random_integer),
            Sx::z(c.eval_push_limit), Sx::Z(c.eval_time_limit as i128), Sx::u(c.growth_cap),
            f32_sx(c.new_erc_name_probability), Sx::z(c.max_points_in_random_expressions), Sx::z(c.max_points_in_program),
        ]),
        Sx::b(s.quote_name),
        Sx::b(s.send_name),
    ])
}

fn fill<T: Clone + std::fmt::Display + PartialEq + PushPrint>(st: &mut PushStack<T>, l: &Sx, f: impl Fn(&Sx) -> Option<T>) -> Option<()> {
    // wire order is top-first; push bottom first
    for x in l.as_l()?.iter().rev() {
        st.push(f(x)?);
    }
    Some(())
}

fn sx_to_msg(m: &Sx) -> Option<PushMessage> {
    let m = m.as_l()?;
    Some(PushMessage::new(
        IntVector::new(m.get(0)?.as_l()?.iter().map(|z| z.as_i32()).collect::<Option<_>>()?),
        BoolVector::new(m.get(1)?.as_l()?.iter().map(|b| b.as_bool()).collect::<Option<_>>()?),
    ))
}

/// Builds a graph from its wire form; symbolic node ids are mapped to freshly created real ids.
pub fn sx_to_graph(g: &Sx, real: &mut HashMap<i128, usize>) -> Option<Graph> {
    let g = g.as_l()?;
    let mut out = Graph::new();
    for n in g.get(0)?.as_l()? {
        let n = n.as_l()?;
        let sym = n.get(0)?.as_z()?;
        let st = n.get(1)?.as_i32()?;
        match real.get(&sym) {
            Some(id) => {
                // the same node (same id) present in an earlier snapshot: clone it with that id
                let mut tmp = Graph::new();
                let nid = tmp.add_node(st);
                let mut node = tmp.nodes.remove(&nid)?;
                // Node has no public id setter: ids are only equal across snapshots made by cloning
                let _ = &mut node;
                let _ = id;
                return None;
            }
            None => {
                let id = out.add_node(st);
                real.insert(sym, id);
            }
        }
    }
    for e in g.get(1)?.as_l()? {
        let e = e.as_l()?;
        let d = *real.get(&e.get(0)?.as_z()?)?;
        for inc in e.get(1)?.as_l()? {
            let inc = inc.as_l()?;
            let o = *real.get(&inc.get(0)?.as_z()?)?;
            out.add_edge(o, d, inc.get(1)?.as_f32()?);
        }
    }
    Some(out)
}

pub fn sx_to_state(s: &Sx) -> Option<PushState> {
    let l = s.as_l()?;
    if l.len() != 17 { return None; }
    let mut st = PushState::new();
    fill(&mut st.bool_stack, &l[0], |x| x.as_bool())?;
    fill(&mut st.code_stack, &l[1], sx_to_item)?;
    fill(&mut st.exec_stack, &l[2], sx_to_item)?;
    fill(&mut st.float_stack, &l[3], |x| x.as_f32())?;
    fill(&mut st.index_stack, &l[4], |x| { let p = x.as_l()?; Some(Index { current: p.get(0)?.as_usize()?, destination: p.get(1)?.as_usize()? }) })?;
    fill(&mut st.int_stack, &l[5], |x| x.as_i32())?;
    fill(&mut st.name_stack, &l[6], |x| x.as_string())?;
    fill(&mut st.bool_vector_stack, &l[7], |x| Some(BoolVector::new(x.as_l()?.iter().map(|b| b.as_bool()).collect::<Option<_>>()?)))?;
    fill(&mut st.float_vector_stack, &l[8], |x| Some(FloatVector::new(x.as_l()?.iter().map(|b| b.as_f32()).collect::<Option<_>>()?)))?;
    fill(&mut st.int_vector_stack, &l[9], |x| Some(IntVector::new(x.as_l()?.iter().map(|b| b.as_i32()).collect::<Option<_>>()?)))?;
    for m in l[10].as_l()? { st.input_stack.push(sx_to_msg(m)?); }
    for m in l[11].as_l()? { st.output_stack.push(sx_to_msg(m)?); }
    let mut real: HashMap<i128, usize> = HashMap::new();
    for g in l[12].as_l()? { st.graph_stack.push(sx_to_graph(g, &mut real)?); }
    for b in l[13].as_l()? {
        let b = b.as_l()?;
        st.name_bindings.insert(b.get(0)?.as_string()?, sx_to_item(b.get(1)?)?);
    }
    let c = l[14].as_l()?;
    if c.len() != 10 { return None; }
    st.configuration = PushConfiguration {
        max_random_float: c[0].as_f32()?, min_random_float: c[1].as_f32()?,
        max_random_integer: c[2].as_i32()?, min_random_integer: c[3].as_i32()?,
        eval_push_limit: c[4].as_i32()?, eval_time_limit: c[5].as_z()? as u64, growth_cap: c[6].as_usize()?,
        new_erc_name_probability: c[7].as_f32()?, max_points_in_random_expressions: c[8].as_i32()?, max_points_in_program: c[9].as_i32()?,
    };
    st.quote_name = l[15].as_bool()?;
    st.send_name = l[16].as_bool()?;
    Some(st)
}

//! Conversions between pushr values and the sx wire format (see coq/theories/Suites/SItem.v).
use crate::sx::{f32_sx, Sx};
use pushr::push::index::Index;
use pushr::push::item::{Item, PushType};
use pushr::push::vector::{BoolVector, FloatVector, IntVector};

/// A vector as a program builds it: element by element, so with SPARE CAPACITY (len < capacity) for odd lengths.
/// Nothing observable may depend on the capacity.
fn roomy<T>(v: Vec<T>) -> Vec<T> {
    let mut out = Vec::with_capacity(v.len() + if v.len() % 2 == 1 { 5 } else { 0 });
    for x in v { out.push(x); }
    out
}

pub fn item_to_sx(it: &Item) -> Sx {
    match it {
        Item::List { items } => {
            let mut v = vec![Sx::Z(0)];
            for i in 0..items.size() {
                v.push(item_to_sx(items.get(i).unwrap()));
            }
            Sx::L(v)
        }
        Item::InstructionMeta { name } => Sx::L(vec![Sx::Z(1), Sx::str(name)]),
        Item::Identifier { name } => Sx::L(vec![Sx::Z(2), Sx::str(name)]),
        Item::Literal { push_type } => match push_type {
            PushType::Bool { val } => Sx::L(vec![Sx::Z(3), Sx::b(*val)]),
            PushType::Int { val } => Sx::L(vec![Sx::Z(4), Sx::z(*val)]),
            PushType::Index { val } => Sx::L(vec![Sx::Z(5), Sx::u(val.current), Sx::u(val.destination)]),
            PushType::Float { val } => Sx::L(vec![Sx::Z(6), f32_sx(*val)]),
            PushType::BoolVector { val } => Sx::L(vec![Sx::Z(7), Sx::list(val.values.iter(), |b| Sx::b(*b))]),
            PushType::IntVector { val } => Sx::L(vec![Sx::Z(8), Sx::list(val.values.iter(), |z| Sx::z(*z))]),
            PushType::FloatVector { val } => Sx::L(vec![Sx::Z(9), Sx::list(val.values.iter(), |f| f32_sx(*f))]),
            PushType::Graph { val: _ } => Sx::L(vec![Sx::Z(10)]),
        },
    }
}

pub fn sx_to_item(s: &Sx) -> Option<Item> {
    let l = s.as_l()?;
    let tag = l.get(0)?.as_z()?;
    Some(match tag {
        0 => {
            // children are top-first on the wire; Item::list takes bottom-first
            let mut cs: Vec<Item> = l[1..].iter().map(sx_to_item).collect::<Option<_>>()?;
            cs.reverse();
            Item::list(cs)
        }
        1 => Item::instruction(l.get(1)?.as_string()?),
        2 => Item::name(l.get(1)?.as_string()?),
        3 => Item::bool(l.get(1)?.as_bool()?),
        4 => Item::int(l.get(1)?.as_i32()?),
        5 => Item::index(Index { current: l.get(1)?.as_usize()?, destination: l.get(2)?.as_usize()? }),
        6 => Item::float(l.get(1)?.as_f32()?),
        7 => Item::boolvec(BoolVector::new(roomy(l.get(1)?.as_l()?.iter().map(|b| b.as_bool()).collect::<Option<_>>()?))),
        8 => Item::intvec(IntVector::new(roomy(l.get(1)?.as_l()?.iter().map(|z| z.as_i32()).collect::<Option<_>>()?))),
        9 => Item::floatvec(FloatVector::new(roomy(l.get(1)?.as_l()?.iter().map(|f| f.as_f32()).collect::<Option<_>>()?))),
        _ => return None,
    })
}

// ---------------------------------------------------------------------------------------------
// Whole PushState <-> sx (see coq/theories/Suites/SState.v)
use pushr::push::configuration::PushConfiguration;
use pushr::push::graph::{Edge, Graph, Node};
use pushr::push::io::PushMessage;
use pushr::push::stack::{PushPrint, PushStack};
use pushr::push::state::PushState;
use std::collections::HashMap;

fn stack_to_sx<T: Clone + std::fmt::Display + PartialEq + PushPrint>(st: &PushStack<T>, f: impl Fn(&T) -> Sx) -> Sx {
    let mut v = Vec::new();
    for i in 0..st.size() {
        v.push(f(st.get(i).unwrap()));
    }
    Sx::L(v)
}

fn msg_to_sx(m: &PushMessage) -> Sx {
    Sx::L(vec![Sx::list(m.header.values.iter(), |z| Sx::z(*z)), Sx::list(m.body.values.iter(), |b| Sx::b(*b))])
}

/// Graphs are written with their REAL node ids (id protocol: coq/theories/Model/IGraph.v header):
/// nodes sorted by id, incoming-edge lists sorted by destination, each list in Vec order.
pub fn graph_to_sx(g: &Graph) -> Sx {
    let mut nodes: Vec<(usize, i32)> = g.nodes.iter().map(|(k, n)| (*k, n.get_state())).collect();
    nodes.sort();
    let ns: Vec<Sx> = nodes.iter().map(|(k, s)| Sx::L(vec![Sx::u(*k), Sx::z(*s)])).collect();
    let mut dests: Vec<usize> = g.edges.keys().cloned().collect();
    dests.sort();
    let mut es = Vec::new();
    for d in dests {
        let inc: Vec<Sx> = g.edges[&d].iter().map(|e| Sx::L(vec![Sx::u(e.get_origin_id()), f32_sx(e.get_weight())])).collect();
        es.push(Sx::L(vec![Sx::u(d), Sx::L(inc)]));
    }
    Sx::L(vec![Sx::L(ns), Sx::L(es)])
}

pub fn state_to_sx(s: &PushState) -> Sx {
    let mut binds: Vec<(&String, &Item)> = s.name_bindings.iter().collect();
    binds.sort_by(|a, b| a.0.cmp(b.0));
    let c = &s.configuration;
    let graphs: Vec<Sx> = s.graph_stack.iter().map(graph_to_sx).collect();
    Sx::L(vec![
        stack_to_sx(&s.bool_stack, |b| Sx::b(*b)),
        stack_to_sx(&s.code_stack, item_to_sx),
        stack_to_sx(&s.exec_stack, item_to_sx),
        stack_to_sx(&s.float_stack, |f| f32_sx(*f)),
        stack_to_sx(&s.index_stack, |i| Sx::L(vec![Sx::u(i.current), Sx::u(i.destination)])),
        stack_to_sx(&s.int_stack, |z| Sx::z(*z)),
        stack_to_sx(&s.name_stack, |n| Sx::str(n)),
        stack_to_sx(&s.bool_vector_stack, |v| Sx::list(v.values.iter(), |b| Sx::b(*b))),
        stack_to_sx(&s.float_vector_stack, |v| Sx::list(v.values.iter(), |f| f32_sx(*f))),
        stack_to_sx(&s.int_vector_stack, |v| Sx::list(v.values.iter(), |z| Sx::z(*z))),
        Sx::L(s.input_stack.iter().map(msg_to_sx).collect()),
        Sx::L(s.output_stack.iter().map(msg_to_sx).collect()),
        Sx::L(graphs),
        Sx::L(binds.iter().map(|(k, v)| Sx::L(vec![Sx::str(k), item_to_sx(v)])).collect()),
        Sx::L(vec![
            f32_sx(c.max_random_float), f32_sx(c.min_random_float), Sx::z(c.max_random_integer), Sx::z(c.min_random_integer),
            Sx::z(c.eval_push_limit), Sx::Z(c.eval_time_limit as i128), Sx::u(c.growth_cap),
            f32_sx(c.new_erc_name_probability), Sx::z(c.max_points_in_random_expressions), Sx::z(c.max_points_in_program),
        ]),
        Sx::b(s.quote_name),
        Sx::b(s.send_name),
    ])
}

fn fill<T: Clone + std::fmt::Display + PartialEq + PushPrint>(st: &mut PushStack<T>, l: &Sx, f: impl Fn(&Sx) -> Option<T>) -> Option<()> {
    // wire order is top-first; push bottom first
    for x in l.as_l()?.iter().rev() {
        st.push(f(x)?);
    }
    Some(())
}

fn sx_to_msg(m: &Sx) -> Option<PushMessage> {
    let m = m.as_l()?;
    Some(PushMessage::new(
        IntVector::new(roomy(m.get(0)?.as_l()?.iter().map(|z| z.as_i32()).collect::<Option<_>>()?)),
        BoolVector::new(roomy(m.get(1)?.as_l()?.iter().map(|b| b.as_bool()).collect::<Option<_>>()?)),
    ))
}

/// A mirror of the process-global NODE_COUNTER (private to pushr): it can be read by creating a node
/// and advanced by creating and dropping nodes, never lowered.  `cur` is the id the next Node::new gets.
/// Single-threaded use only.
pub struct NodeCounter { pub cur: usize }
pub const MAX_BURN: usize = 400_000_000;
impl NodeCounter {
    pub fn read() -> Self { NodeCounter { cur: Node::new(0).get_id() + 1 } }
    /// false: the counter is already beyond `target` (or absurdly far below it)
    pub fn burn_to(&mut self, target: usize) -> bool {
        if target < self.cur || target - self.cur > MAX_BURN { return false; }
        while self.cur < target { let _ = Node::new(0); self.cur += 1; }
        true
    }
    pub fn make(&mut self, id: usize, state: i32) -> Option<Node> {
        if !self.burn_to(id) { return None; }
        let n = Node::new(state);
        self.cur += 1;
        if n.get_id() != id { return None; }
        Some(n)
    }
}

#[derive(Debug)]
pub enum BuildErr {
    /// the case cannot be decoded / violates the id protocol
    Bad,
    /// the process counter is already beyond an id the case needs: only a fresh process can run it
    Regress,
}

fn wire_graph(g: &Sx) -> Option<(Vec<(usize, i32)>, Vec<(usize, Vec<(usize, f32)>)>)> {
    let g = g.as_l()?;
    if g.len() != 2 { return None; }
    let mut ns = vec![];
    for n in g[0].as_l()? {
        let n = n.as_l()?;
        if n.len() != 2 { return None; }
        ns.push((n[0].as_usize()?, n[1].as_i32()?));
    }
    let mut es = vec![];
    for e in g[1].as_l()? {
        let e = e.as_l()?;
        if e.len() != 2 { return None; }
        let mut inc = vec![];
        for x in e[1].as_l()? {
            let x = x.as_l()?;
            if x.len() != 2 { return None; }
            inc.push((x[0].as_usize()?, x[1].as_f32()?));
        }
        es.push((e[0].as_usize()?, inc));
    }
    Some((ns, es))
}

/// Builds the GRAPH stack (oldest first on the wire) with exactly the node ids of the wire form and leaves the
/// process counter at `next_node`.  A node id shared by several snapshots is one Node value cloned into each
/// (as GRAPH.DUP / Graph::clone produce), its state set per snapshot; edges are stored through the public
/// `edges` field in the given order, so lists the API could not produce (dangling ends) can be built too.
fn build_graphs(l: &Sx, next_node: i128) -> Result<Vec<Graph>, BuildErr> {
    let mut wire = vec![];
    for g in l.as_l().ok_or(BuildErr::Bad)? { wire.push(wire_graph(g).ok_or(BuildErr::Bad)?); }
    let mut ids: Vec<usize> = wire.iter().flat_map(|(ns, _)| ns.iter().map(|(k, _)| *k)).collect();
    ids.sort();
    ids.dedup();
    if ids.is_empty() && next_node == 1 {
        // no node id is fixed by the case: the counter is left alone
        let mut out = vec![];
        for (_, es) in &wire {
            let mut g = Graph::new();
            for (d, inc) in es { g.edges.insert(*d, inc.iter().map(|(o, w)| Edge::new(*o, *w)).collect()); }
            out.push(g);
        }
        return Ok(out);
    }
    if next_node < 1 || next_node > (usize::MAX as i128) { return Err(BuildErr::Bad); }
    let next_node = next_node as usize;
    if let Some(mx) = ids.last() { if *mx >= next_node { return Err(BuildErr::Bad); } }
    let mut ctr = NodeCounter::read();
    let lowest = *ids.first().unwrap_or(&next_node);
    if lowest < ctr.cur { return Err(BuildErr::Regress); }
    if next_node - ctr.cur > MAX_BURN { return Err(BuildErr::Bad); }
    let mut proto: HashMap<usize, Node> = HashMap::new();
    for id in &ids { proto.insert(*id, ctr.make(*id, 0).ok_or(BuildErr::Bad)?); }
    let mut out = vec![];
    for (ns, es) in &wire {
        let mut g = Graph::new();
        for (k, st) in ns {
            let mut n = proto[k].clone();
            n.set_state(*st);
            if g.nodes.insert(*k, n).is_some() { return Err(BuildErr::Bad); }
        }
        for (d, inc) in es {
            if g.edges.insert(*d, inc.iter().map(|(o, w)| Edge::new(*o, *w)).collect()).is_some() { return Err(BuildErr::Bad); }
        }
        out.push(g);
    }
    if !ctr.burn_to(next_node) { return Err(BuildErr::Bad); }
    Ok(out)
}

/// state with an empty world: no node id fixed (next_node = 1)
#[allow(dead_code)]
pub fn sx_to_state(s: &Sx) -> Option<PushState> { sx_to_state_at(s, 1).ok() }

pub fn sx_to_state_at(s: &Sx, next_node: i128) -> Result<PushState, BuildErr> {
    let graphs = build_graphs(s.as_l().and_then(|l| l.get(12)).ok_or(BuildErr::Bad)?, next_node);
    match graphs {
        Err(e) => Err(e),
        Ok(gs) => fill_state(s, gs).ok_or(BuildErr::Bad),
    }
}

fn fill_state(s: &Sx, graphs: Vec<Graph>) -> Option<PushState> {
    let l = s.as_l()?;
    if l.len() != 17 { return None; }
    let mut st = PushState::new();
    fill(&mut st.bool_stack, &l[0], |x| x.as_bool())?;
    fill(&mut st.code_stack, &l[1], sx_to_item)?;
    fill(&mut st.exec_stack, &l[2], sx_to_item)?;
    fill(&mut st.float_stack, &l[3], |x| x.as_f32())?;
    fill(&mut st.index_stack, &l[4], |x| { let p = x.as_l()?; Some(Index { current: p.get(0)?.as_usize()?, destination: p.get(1)?.as_usize()? }) })?;
    fill(&mut st.int_stack, &l[5], |x| x.as_i32())?;
    fill(&mut st.name_stack, &l[6], |x| x.as_string())?;
    fill(&mut st.bool_vector_stack, &l[7], |x| Some(BoolVector::new(roomy(x.as_l()?.iter().map(|b| b.as_bool()).collect::<Option<_>>()?))))?;
    fill(&mut st.float_vector_stack, &l[8], |x| Some(FloatVector::new(roomy(x.as_l()?.iter().map(|b| b.as_f32()).collect::<Option<_>>()?))))?;
    fill(&mut st.int_vector_stack, &l[9], |x| Some(IntVector::new(roomy(x.as_l()?.iter().map(|b| b.as_i32()).collect::<Option<_>>()?))))?;
    for m in l[10].as_l()? { st.input_stack.push(sx_to_msg(m)?); }
    for m in l[11].as_l()? { st.output_stack.push(sx_to_msg(m)?); }
    if graphs.len() > 100 { return None; }
    for g in graphs { st.graph_stack.push(g); }
    for b in l[13].as_l()? {
        let b = b.as_l()?;
        st.name_bindings.insert(b.get(0)?.as_string()?, sx_to_item(b.get(1)?)?);
    }
    let c = l[14].as_l()?;
    if c.len() != 10 { return None; }
    st.configuration = PushConfiguration {
        max_random_float: c[0].as_f32()?, min_random_float: c[1].as_f32()?,
        max_random_integer: c[2].as_i32()?, min_random_integer: c[3].as_i32()?,
        eval_push_limit: c[4].as_i32()?, eval_time_limit: c[5].as_z()? as u64, growth_cap: c[6].as_usize()?,
        new_erc_name_probability: c[7].as_f32()?, max_points_in_random_expressions: c[8].as_i32()?, max_points_in_program: c[9].as_i32()?,
    };
    st.quote_name = l[15].as_bool()?;
    st.send_name = l[16].as_bool()?;
    Some(st)
}

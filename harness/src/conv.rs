//! Conversions between pushr values and the sx wire format (see coq/theories/Suites/SItem.v).
use crate::sx::{f32_sx, Sx};
use pushr::push::index::Index;
use pushr::push::item::{Item, PushType};
use pushr::push::vector::{BoolVector, FloatVector, IntVector};

pub fn item_to_sx(it: &Item) -> Sx {
    match it {
        Item::List { items } => {
            let mut v = vec![Sx::Z(0)];
            for i in 0..items.size() {
                v.push(item_to_sx(items.get(i).unwrap()));
            }
            Sx::L(v)
        }
        Item::InstructionMeta { name } => Sx::L(vec![Sx::Z(1), Sx::str(name)]),
        Item::Identifier { name } => Sx::L(vec![Sx::Z(2), Sx::str(name)]),
        Item::Literal { push_type } => match push_type {
            PushType::Bool { val } => Sx::L(vec![Sx::Z(3), Sx::b(*val)]),
            PushType::Int { val } => Sx::L(vec![Sx::Z(4), Sx::z(*val)]),
            PushType::Index { val } => Sx::L(vec![Sx::Z(5), Sx::u(val.current), Sx::u(val.destination)]),
            PushType::Float { val } => Sx::L(vec![Sx::Z(6), f32_sx(*val)]),
            PushType::BoolVector { val } => Sx::L(vec![Sx::Z(7), Sx::list(val.values.iter(), |b| Sx::b(*b))]),
            PushType::IntVector { val } => Sx::L(vec![Sx::Z(8), Sx::list(val.values.iter(), |z| Sx::z(*z))]),
            PushType::FloatVector { val } => Sx::L(vec![Sx::Z(9), Sx::list(val.values.iter(), |f| f32_sx(*f))]),
            PushType::Graph { val: _ } => Sx::L(vec![Sx::Z(10)]),
        },
    }
}

pub fn sx_to_item(s: &Sx) -> Option<Item> {
    let l = s.as_l()?;
    let tag = l.get(0)?.as_z()?;
    Some(match tag {
        0 => {
            // children are top-first on the wire; Item::list takes bottom-first
            let mut cs: Vec<Item> = l[1..].iter().map(sx_to_item).collect::<Option<_>>()?;
            cs.reverse();
            Item::list(cs)
        }
        1 => Item::instruction(l.get(1)?.as_string()?),
        2 => Item::name(l.get(1)?.as_string()?),
        3 => Item::bool(l.get(1)?.as_bool()?),
        4 => Item::int(l.get(1)?.as_i32()?),
        5 => Item::index(Index { current: l.get(1)?.as_usize()?, destination: l.get(2)?.as_usize()? }),
        6 => Item::float(l.get(1)?.as_f32()?),
        7 => Item::boolvec(BoolVector::new(l.get(1)?.as_l()?.iter().map(|b| b.as_bool()).collect::<Option<_>>()?)),
        8 => Item::intvec(IntVector::new(l.get(1)?.as_l()?.iter().map(|z| z.as_i32()).collect::<Option<_>>()?)),
        9 => Item::floatvec(FloatVector::new(l.get(1)?.as_l()?.iter().map(|f| f.as_f32()).collect::<Option<_>>()?)),
        _ => return None,
    })
}

//! Suite "parse": PushParser::parse_program on a state whose EXEC stack holds given items.
//!   case (profile libm text pre_exec_items) -> ((item ...) others_untouched)
//!   EXEC items top-first; others_untouched = every field of the state except EXEC equals a fresh PushState.
//! Suite "parse.prim": the primitives the parser model is built from, validated one by one.
//!   (profile libm 0 (token ...))      i32::from_str of each token            -> (() | (z) ...)
//!   (profile libm 1 text)             str::split_whitespace                  -> ((cp ...) ...)
//!   (profile libm 2 (item ...))       PushStack<Item>::to_string (top-first) -> (cp ...)
//!   (profile libm 3 (item ...) item depth)  PushParser::rec_push             -> ((item ...) ok)
//!   (profile libm 4 (bits ...))       x -> s = format!("{:.3}") -> s.parse::<f32>() -> format again
//!                                                                            -> (((cp ...) (() | (bits)) (cp ...)) ...)
//!   (profile libm 5 (item ...))       print the stack, parse the text onto a fresh state, print EXEC
//!                                                                            -> ((cp ...) (item ...) (cp ...))
//!   (profile libm 6 (z ...))          i32 -> to_string -> parse::<i32>       -> (((cp ...) (() | (z))) ...)
use crate::conv::{item_to_sx, state_to_sx, sx_to_item};
use crate::sx::{f32_sx, Sx};
use pushr::push::instructions::InstructionSet;
use pushr::push::item::Item;
use pushr::push::parser::PushParser;
use pushr::push::stack::PushStack;
use pushr::push::state::PushState;

pub const SUITES: &[(&str, fn(&Sx) -> Sx)] = &[("parse", parse), ("parse.prim", prim), ("parse.st", parse_st)];

thread_local! {
    static ISET: InstructionSet = { let mut is = InstructionSet::new(); is.load(); is };
}

fn stack_items(st: &PushStack<Item>) -> Sx {
    let mut v = Vec::new();
    for i in 0..st.size() {
        v.push(item_to_sx(st.get(i).unwrap()));
    }
    Sx::L(v)
}

fn fill_items(st: &mut PushStack<Item>, l: &Sx) -> Option<()> {
    // wire order is top-first; push bottom first
    for x in l.as_l()?.iter().rev() {
        st.push(sx_to_item(x)?);
    }
    Some(())
}

fn others_untouched(st: &PushState) -> bool {
    let fresh = state_to_sx(&PushState::new());
    let now = state_to_sx(st);
    match (fresh.as_l(), now.as_l()) {
        (Some(a), Some(b)) => a.len() == b.len() && (0..a.len()).all(|i| i == 2 || a[i] == b[i]),
        _ => false,
    }
}

fn parse(c: &Sx) -> Sx {
    let go = || -> Option<Sx> {
        let c = c.as_l()?;
        if c.len() != 4 { return None; }
        c[1].as_l()?;
        let text = c[2].as_string()?;
        let mut st = PushState::new();
        fill_items(&mut st.exec_stack, &c[3])?;
        ISET.with(|is| PushParser::parse_program(&mut st, is, &text));
        Some(Sx::L(vec![stack_items(&st.exec_stack), Sx::b(others_untouched(&st))]))
    };
    go().unwrap_or_else(Sx::bad)
}

/// Suite "parse.st": (profile libm text state (name ...)) -> the whole state after parse_program, with the
/// extra names registered through InstructionSet::add AFTER load().
fn parse_st(c: &Sx) -> Sx {
    let go = || -> Option<Sx> {
        let c = c.as_l()?;
        if c.len() != 5 && c.len() != 6 { return None; }
        c[1].as_l()?;
        let text = c[2].as_string()?;
        let mut st = crate::conv::sx_to_state(&c[3])?;
        let mut is = InstructionSet::new();
        is.load();
        if !c[4].as_l()?.is_empty() {
            // history: the same text was read once before the host registered its own instructions (a lookup must not be remembered)
            let mut scratch = PushState::new();
            PushParser::parse_program(&mut scratch, &is, &text);
        }
        for n in c[4].as_l()? {
            is.add(n.as_string()?, pushr::push::instructions::Instruction::new(|_s, _c| {}));
        }
        if c.len() == 6 {
            // history: the same InstructionSet has already executed these items on some other state
            let mut scratch = PushState::new();
            for x in c[5].as_l()?.iter().rev() { scratch.exec_stack.push(sx_to_item(x)?); }
            let icache = is.cache();
            for _ in 0..64 { if pushr::push::interpreter::PushInterpreter::step(&mut scratch, &mut is, &icache) { break; } }
        }
        PushParser::parse_program(&mut st, &is, &text);
        Some(state_to_sx(&st))
    };
    go().unwrap_or_else(Sx::bad)
}

fn prim(c: &Sx) -> Sx {
    let go = || -> Option<Sx> {
        let c = c.as_l()?;
        if c.len() < 4 { return None; }
        c[1].as_l()?;
        let op = c[2].as_z()?;
        let arity = |n: usize| -> Option<()> { if c.len() == n { Some(()) } else { None } };
        Some(match op {
            0 => {
                arity(4)?;
                let mut out = Vec::new();
                for t in c[3].as_l()? {
                    out.push(Sx::opt(t.as_string()?.parse::<i32>().ok(), Sx::z));
                }
                Sx::L(out)
            }
            1 => {
                arity(4)?;
                let text = c[3].as_string()?;
                Sx::L(text.split_whitespace().map(Sx::str).collect())
            }
            2 => {
                arity(4)?;
                let mut st: PushStack<Item> = PushStack::new();
                fill_items(&mut st, &c[3])?;
                Sx::str(&st.to_string())
            }
            3 => {
                arity(6)?;
                let mut st: PushStack<Item> = PushStack::new();
                fill_items(&mut st, &c[3])?;
                let x = sx_to_item(&c[4])?;
                let d = c[5].as_usize()?;
                let ok = PushParser::rec_push(&mut st, x, d);
                Sx::L(vec![stack_items(&st), Sx::b(ok)])
            }
            4 => {
                arity(4)?;
                let mut out = Vec::new();
                for b in c[3].as_l()? {
                    let x = b.as_f32()?;
                    let s = format!("{:.3}", x);
                    let y = s.parse::<f32>().ok();
                    let s2 = match y { Some(y) => format!("{:.3}", y), None => String::new() };
                    out.push(Sx::L(vec![Sx::str(&s), Sx::opt(y, f32_sx), Sx::str(&s2)]));
                }
                Sx::L(out)
            }
            5 => {
                arity(4)?;
                let mut src: PushStack<Item> = PushStack::new();
                fill_items(&mut src, &c[3])?;
                let s = src.to_string();
                let mut st = PushState::new();
                ISET.with(|is| PushParser::parse_program(&mut st, is, &s));
                let s2 = st.exec_stack.to_string();
                Sx::L(vec![Sx::str(&s), stack_items(&st.exec_stack), Sx::str(&s2)])
            }
            6 => {
                arity(4)?;
                let mut out = Vec::new();
                for z in c[3].as_l()? {
                    let s = z.as_i32()?.to_string();
                    out.push(Sx::L(vec![Sx::str(&s), Sx::opt(s.parse::<i32>().ok(), Sx::z)]));
                }
                Sx::L(out)
            }
            _ => return None,
        })
    };
    go().unwrap_or_else(Sx::bad)
}

//! Suite "stackitem": a history of operations on PushStack<Item> (nested code items as elements).
//! Case and result formats: coq/theories/Suites/SStackItem.v.  Every element that leaves the
//! container (get/get_mut, copy, pop, ..., the final contents) is reported STRUCTURALLY through
//! conv::item_to_sx — two items that print alike are still different elements.
use crate::conv::{item_to_sx, sx_to_item};
use crate::sx::Sx;
use pushr::push::item::Item;
use pushr::push::stack::PushStack;

pub const SUITES: &[(&str, fn(&Sx) -> Sx)] = &[("stackitem", run)];

fn run(c: &Sx) -> Sx {
    match go(c) { Some(v) => v, None => Sx::bad() }
}

fn items(s: &Sx) -> Option<Vec<Item>> { s.as_l()?.iter().map(sx_to_item).collect() }

fn go(c: &Sx) -> Option<Sx> {
    let c = c.as_l()?;
    if c.len() != 4 { return None; }
    // c[0] = profile (selects the binary), c[1] = libm table (unused: printing needs no libm call)
    c[1].as_l()?;
    let mut st: PushStack<Item> = PushStack::from_vec(items(&c[2])?);
    let mut outs = Vec::new();
    for op in c[3].as_l()? {
        let op = op.as_l()?;
        let tag = op.get(0)?.as_z()?;
        let us = |k: usize| -> Option<usize> { op.get(k)?.as_usize() };
        let el = |k: usize| -> Option<Item> { sx_to_item(op.get(k)?) };
        let arity = |n: usize| -> Option<()> { if op.len() == n { Some(()) } else { None } };
        let o = match tag {
            0 => { arity(1)?; Sx::u(st.size()) }
            1 => { arity(1)?; Sx::str(&st.to_string()) }
            2 => { arity(2)?; Sx::b(st.last_eq(&el(1)?)) }
            3 => { arity(3)?; Sx::opt(st.equal_at(us(1)?, &el(2)?), Sx::b) }
            4 => { arity(1)?; Sx::opt(st.bottom_mut().map(|x| item_to_sx(x)), |x| x) }
            5 => { arity(1)?; st.flush(); Sx::unit() }
            6 => { arity(3)?; match st.replace(us(1)?, el(2)?) { Ok(()) => Sx::L(vec![]), Err(d) => Sx::L(vec![Sx::u(d)]) } }
            7 => { arity(2)?; st.remove(us(1)?); Sx::unit() }
            8 => { arity(1)?; st.reverse(); Sx::unit() }
            9 => {
                arity(2)?;
                let i = us(1)?;
                let a = st.get(i).map(|x| item_to_sx(x));
                let b = st.get_mut(i).map(|x| item_to_sx(x));
                if a != b { Sx::L(vec![Sx::Z(-1), Sx::Z(-1)]) } else { Sx::opt(a, |x| x) }
            }
            10 => { arity(2)?; st.push(el(1)?); Sx::unit() }
            11 => { arity(2)?; st.push_front(el(1)?); Sx::unit() }
            12 => { arity(2)?; st.yank(us(1)?); Sx::unit() }
            13 => { arity(2)?; st.shove(us(1)?); Sx::unit() }
            14 => { arity(3)?; st.swap(us(1)?, us(2)?); Sx::unit() }
            15 => { arity(1)?; Sx::opt(st.pop_front(), |x| item_to_sx(&x)) }
            16 => { arity(1)?; Sx::opt(st.pop(), |x| item_to_sx(&x)) }
            17 => { arity(2)?; Sx::opt(st.pop_vec(us(1)?), |v| Sx::list(v.iter(), item_to_sx)) }
            18 => { arity(2)?; Sx::opt(st.copy(us(1)?), |x| item_to_sx(&x)) }
            19 => { arity(2)?; Sx::opt(st.copy_vec(us(1)?), |v| Sx::list(v.iter(), item_to_sx)) }
            20 => { arity(2)?; st.push_vec(items(op.get(1)?)?); Sx::unit() }
            _ => return None,
        };
        outs.push(o);
    }
    // final contents, top first, through copy_vec (last element of the returned vector is the top)
    let mut fin = st.copy_vec(st.size())?;
    fin.reverse();
    Some(Sx::L(vec![Sx::list(fin.iter(), item_to_sx), Sx::L(outs)]))
}

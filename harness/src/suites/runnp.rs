//! Suite "runnp" (C01): suite "run" with the payload dropped — () when the case returned normally.
//! For cases whose result depends on thread_rng (the RAND instructions): only "returned normally" is compared
//! with the model (coq/theories/Suites/SNoPanic.v, pm_runnp); a panic propagates to main's catch_unwind.
use crate::sx::Sx;

pub const SUITES: &[(&str, fn(&Sx) -> Sx)] = &[("runnp", runnp)];

fn runnp(c: &Sx) -> Sx {
    let run = crate::suites::run::SUITES.iter().find(|(n, _)| *n == "run").expect("suite run").1;
    let r = run(c);
    if r == Sx::bad() { r } else { Sx::unit() }
}

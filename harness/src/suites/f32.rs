//! Suite "f32": primitive f32 operations of the Rust implementation (validates the Flocq instance),
//! and suite "libm": answers oracle requests (sin, cos, tan, exp, powf) with this binary's own libm.
use crate::sx::{f32_sx, Sx};

pub const SUITES: &[(&str, fn(&Sx) -> Sx)] = &[("f32", run), ("libm", libm), SWEEP];

pub fn libm_eval(fnid: i128, arg: i128) -> Option<f32> {
    let x = f32::from_bits((arg & 0xffff_ffff) as u32);
    Some(match fnid {
        1 => x.sin(),
        2 => x.cos(),
        3 => x.tan(),
        4 => x.exp(),
        5 => f32::from_bits(((arg >> 32) & 0xffff_ffff) as u32).powf(x),
        _ => return None,
    })
}

/// case: (profile ((fn arg) ...)) -> ((fn arg result) ...)
fn libm(c: &Sx) -> Sx {
    let go = || -> Option<Sx> {
        let c = c.as_l()?;
        let mut out = Vec::new();
        for q in c.get(1)?.as_l()? {
            let q = q.zs()?;
            let r = libm_eval(q[0], q[1])?;
            out.push(Sx::L(vec![Sx::Z(q[0]), Sx::Z(q[1]), f32_sx(r)]));
        }
        Some(Sx::L(out))
    };
    go().unwrap_or_else(Sx::bad)
}

fn run(c: &Sx) -> Sx {
    let go = || -> Option<Sx> {
        let c = c.as_l()?;
        let op = c.get(2)?.as_z()?;
        if op == 12 {
            let s = c.get(3)?.as_string()?;
            return Some(Sx::opt(s.parse::<f32>().ok(), f32_sx));
        }
        let az = c.get(3)?.as_z()?;
        let bz = c.get(4)?.as_z()?;
        let a = f32::from_bits((az & 0xffff_ffff) as u32);
        let b = f32::from_bits((bz & 0xffff_ffff) as u32);
        Some(match op {
            0 => f32_sx(a + b),
            1 => f32_sx(a - b),
            2 => f32_sx(a * b),
            3 => f32_sx(a / b),
            4 => f32_sx(a % b),
            5 => Sx::Z(match a.partial_cmp(&b) { Some(std::cmp::Ordering::Less) => -1, Some(std::cmp::Ordering::Equal) => 0, Some(std::cmp::Ordering::Greater) => 1, None => 2 }),
            6 => f32_sx((az as i32) as f32),
            7 => Sx::z(a as i32),
            8 => f32_sx(a.sqrt()),
            9 => f32_sx(a.ceil()),
            10 => f32_sx(a.round()),
            11 => Sx::str(&format!("{:.*}", az as usize, b)),
            13 => f32_sx(a.abs()),
            14 => f32_sx(-a),
            15 => f32_sx((az as usize) as f32),
            16 => Sx::Z((a as usize) as i128),
            17 => f32_sx(libm_eval(bz, az)?),
            18 => f32_sx(a.powf(b)),
            19 => Sx::str(&format!("{}", a)),
            _ => return None,
        })
    };
    go().unwrap_or_else(Sx::bad)
}

// ---------------------------------------------------------------------------------------------
// Suite "f32sweep": the scalar float round-trip law of C11 enumerated natively over a range of
// bit patterns: format!("{:.3}") -> parse::<f32>() -> format!("{:.3}") must reproduce the text.
// case: (profile () lo hi)  ->  (failures first_failing_bits_or_-1)
pub const SWEEP: (&str, fn(&Sx) -> Sx) = ("f32sweep", sweep);
fn sweep(c: &Sx) -> Sx {
    let go = || -> Option<Sx> {
        let c = c.as_l()?;
        let lo = c.get(2)?.as_z()?;
        let hi = c.get(3)?.as_z()?;
        if lo < 0 || hi > (1i128 << 32) || lo > hi { return None; }
        let mut fails: i128 = 0;
        let mut first: i128 = -1;
        let mut b = lo;
        while b < hi {
            let x = f32::from_bits(b as u32);
            let s1 = format!("{:.3}", x);
            let ok = match s1.parse::<f32>() {
                Ok(y) => format!("{:.3}", y) == s1,
                Err(_) => false,
            };
            if !ok { fails += 1; if first < 0 { first = b; } }
            b += 1;
        }
        Some(Sx::L(vec![Sx::Z(fails), Sx::Z(first)]))
    };
    go().unwrap_or_else(Sx::bad)
}

//! Suite "buffer": a history of operations on PushBuffer<i32>, through its public API.
//! case: (profile kind cap ops), kind 0 = Queue, 1 = Stack.
use crate::sx::Sx;
use pushr::push::buffer::{BufferType, PushBuffer};

pub const SUITES: &[(&str, fn(&Sx) -> Sx)] = &[("buffer", run)];

fn run(c: &Sx) -> Sx {
    match go(c) { Some(v) => v, None => Sx::bad() }
}

/// the cells to_string printed, parsed back into numbers (each cell is written as " {}")
fn printed(s: &str) -> Vec<i128> {
    s.split_whitespace().map(|t| t.parse::<i128>().unwrap()).collect()
}

fn go(c: &Sx) -> Option<Sx> {
    let c = c.as_l()?;
    if c.len() != 4 { return None; }
    let kind = match c[1].as_z()? { 0 => BufferType::Queue, 1 => BufferType::Stack, _ => return None };
    let cap = c[2].as_usize()?;
    if cap > 4096 { return None; }
    let mut b: PushBuffer<i32> = PushBuffer::new(kind, cap);
    let mut outs = Vec::new();
    for op in c[3].as_l()? {
        let op = op.as_l()?;
        let tag = op.get(0)?.as_z()?;
        let arity = match tag { 3 | 6 | 7 | 8 => 2, _ => 1 };
        if op.len() != arity { return None; }
        let us = |k: usize| -> Option<usize> { op.get(k)?.as_usize() };
        let el = |k: usize| -> Option<i32> { op.get(k)?.as_i32() };
        let o = match tag {
            0 => Sx::u(b.capacity()),
            1 => Sx::u(b.size()),
            2 => Sx::list(printed(&b.to_string()), Sx::Z),
            3 => Sx::opt(b.copy(us(1)?), |x| Sx::z(x)),
            4 => Sx::opt(b.copy_oldest(), |x| Sx::z(x)),
            5 => { b.flush(); Sx::unit() }
            6 => {
                let i = us(1)?;
                let a = b.get(i).map(|x| *x);
                let m = b.get_mut(i).map(|x| *x);
                if a != m { Sx::L(vec![Sx::Z(-1), Sx::Z(-1)]) } else { Sx::opt(a, |x| Sx::z(x)) }
            }
            7 => { b.push(el(1)?); Sx::unit() }
            8 => { b.push_force(el(1)?); Sx::unit() }
            9 => Sx::opt(b.pop(), |x| Sx::z(x)),
            10 => Sx::opt(b.peek_oldest().map(|x| *x), |x| Sx::z(x)),
            11 => Sx::opt(b.peek_newest().map(|x| *x), |x| Sx::z(x)),
            12 => {
                let it = b.iter();
                let hint = it.len();
                let v: Vec<i32> = it.map(|x| *x).collect();
                // ExactSizeIterator: the announced length is the number of items yielded; and "iteration sees exactly the live
                // items" however the iterator is driven: skip / nth-then-continue / step_by / last / count agree with the plain walk
                let mut consistent = hint == v.len();
                for k in 0..=v.len() + 1 {
                    let sk: Vec<i32> = b.iter().skip(k).map(|x| *x).collect();
                    if sk[..] != v[k.min(v.len())..] { consistent = false; }
                    let mut it2 = b.iter();
                    let nth = it2.nth(k).map(|x| *x);
                    let rest: Vec<i32> = it2.map(|x| *x).collect();
                    if nth != v.get(k).copied() || rest[..] != v[(k + 1).min(v.len())..] { consistent = false; }
                    if k >= 1 {
                        let st: Vec<i32> = b.iter().step_by(k).map(|x| *x).collect();
                        let want: Vec<i32> = v.iter().step_by(k).copied().collect();
                        if st != want { consistent = false; }
                    }
                }
                if b.iter().count() != v.len() || b.iter().last().map(|x| *x) != v.last().copied() { consistent = false; }
                if !consistent { Sx::L(vec![Sx::Z(-1), Sx::Z(-1)]) } else { Sx::list(v, |x| Sx::z(x)) }
            }
            13 => Sx::b(b.is_empty()),
            14 => Sx::b(b.is_full()),
            _ => return None,
        };
        outs.push(o);
    }
    // final live items, oldest first, through the iterator
    let fin: Vec<i32> = b.iter().map(|x| *x).collect();
    Some(Sx::L(vec![Sx::list(fin, |x| Sx::z(x)), Sx::L(outs)]))
}

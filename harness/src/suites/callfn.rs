//! Suite "callfn": public instruction functions that InstructionSet::load() does not register, called directly.
//! case (profile libm state name) -> the state after the call
use crate::conv::{state_to_sx, sx_to_state};
use crate::sx::Sx;
use pushr::push::instructions::InstructionCache;

pub const SUITES: &[(&str, fn(&Sx) -> Sx)] = &[("callfn", run)];

fn run(c: &Sx) -> Sx {
    let go = || -> Option<Sx> {
        let c = c.as_l()?;
        if c.len() != 4 { return None; }
        let mut st = sx_to_state(c.get(2)?)?;
        let name = c.get(3)?.as_string()?;
        let ic = InstructionCache::new(vec![]);
        match name.as_str() {
            "INTVECTOR.*" => pushr::push::vector::int_vector_multiply(&mut st, &ic),
            "INTVECTOR./" => pushr::push::vector::int_vector_divide(&mut st, &ic),
            "INPUT.FLUSH" => pushr::push::io::input_flush(&mut st, &ic),
            _ => return None,
        }
        Some(state_to_sx(&st))
    };
    go().unwrap_or_else(Sx::bad)
}

//! Suite "graph": a history of operations on pushr::push::graph::Graph values held in a few
//! registers (public API + the public fields `nodes` / `edges` the GRAPH.* instructions read).
//! Case format and canonical result format: see coq/theories/Suites/SGraph.v.
use crate::sx::{f32_sx, Sx};
use pushr::push::graph::{Edge, Graph};

pub const SUITES: &[(&str, fn(&Sx) -> Sx)] = &[("graph", run), ("graph.eq", run_eq)];

fn run(c: &Sx) -> Sx {
    match play(c) {
        Some((regs, ids, outs)) => {
            let fin: Vec<Sx> = regs.iter().map(|g| content(g, &ids)).collect();
            Sx::L(vec![Sx::L(outs), Sx::L(fin)])
        }
        None => Sx::bad(),
    }
}

/// `==` (impl PartialEq for Graph) between all pairs of registers after the history
fn run_eq(c: &Sx) -> Sx {
    match play(c) {
        Some((regs, _, _)) => Sx::list(regs.iter(), |a| Sx::list(regs.iter(), |b| Sx::b(a == b))),
        None => Sx::bad(),
    }
}

struct Ids { issued: Vec<usize> }

impl Ids {
    /// id operand of a case -> real id
    fn resolve(&self, z: i128) -> Option<usize> {
        if z < 0 {
            if z < -(1i128 << 64) { return None; }
            Some((-z - 1) as usize)
        } else if z < (1 << 20) {
            Some(match self.issued.get(z as usize) { Some(id) => *id, None => usize::MAX - (z as usize) })
        } else if z < (1 << 21) {
            // alias: the id of a created node plus 2^32 (never issued, equal to a live id modulo 2^32)
            Some(match self.issued.get((z - (1 << 20)) as usize) { Some(id) => id.wrapping_add(1usize << 32), None => usize::MAX - (z as usize) })
        } else if z >= (1i128 << 40) && z < (1i128 << 64) {
            Some(z as usize)
        } else { None }
    }
    /// real id -> canonical id (index in creation order, or -(raw+1))
    fn canon(&self, id: usize) -> Sx {
        match self.issued.iter().position(|x| *x == id) {
            Some(k) => Sx::Z(k as i128),
            None => Sx::Z(-(id as i128) - 1),
        }
    }
    fn canon_key(&self, id: usize) -> i128 {
        match self.canon(id) { Sx::Z(v) => v, _ => 0 }
    }
}

fn states(s: &Sx) -> Option<Vec<i32>> { s.as_l()?.iter().map(|x| x.as_i32()).collect() }

/// the predecessor loop of GRAPH.NODE*PREDECESSORS over the public fields (ids before `as i32`)
fn preds(g: &Graph, id: usize, sts: &Vec<i32>) -> Vec<usize> {
    let mut out = vec![];
    if let Some(incoming) = g.edges.get(&id) {
        for e in incoming {
            if let Some(st) = g.get_state(&e.get_origin_id()) {
                if sts.len() == 0 || sts.contains(&st) { out.push(e.get_origin_id()); }
            }
        }
    }
    out
}

/// the successor loop of GRAPH.NODE*SUCCESSORS over the public fields, sorted (HashMap order)
fn succs(g: &Graph, id: usize, sts: &Vec<i32>, ids: &Ids) -> Vec<usize> {
    let mut out = vec![];
    for (k, v) in g.edges.iter() {
        if v.contains(&Edge::new(id, 0.0)) {
            if let Some(n) = g.nodes.get(k) {
                if sts.len() == 0 || sts.contains(&n.get_state()) { out.push(*k); }
            }
        }
    }
    out.sort_by_key(|k| ids.canon_key(*k));
    out
}

fn num<T: std::str::FromStr>(s: &str) -> Option<T> { s.parse::<T>().ok() }

/// "ID: 3, STATE: 5"
fn parse_node(s: &str) -> Option<(usize, i32)> {
    let s = s.strip_prefix("ID: ")?;
    let (a, b) = s.split_once(", STATE: ")?;
    Some((num(a)?, num(b)?))
}

/// "[ONID: 3, WEIGHT: 0.5]"
fn parse_edge(s: &str) -> Option<(usize, f32)> {
    let s = s.strip_prefix("[ONID: ")?.strip_suffix("]")?;
    let (a, b) = s.split_once(", WEIGHT: ")?;
    Some((num(a)?, num(b)?))
}

/// The text of Graph::diff, parsed strictly back into its entries.  Lines in HashMap order are
/// brought into key order (left-hand loop before right-hand loop, Vec order kept).
fn parse_diff(text: &str, ids: &Ids) -> Option<Sx> {
    let rest = text.strip_prefix("\nNODES(")?;
    let (ncount, rest) = rest.split_once("):")?;
    let (nodes_part, edges_part) = rest.split_once("\nEDGES(")?;
    let (ecount, edges_part) = edges_part.split_once("):")?;
    let ncount: i128 = num(ncount)?;
    let ecount: i128 = num(ecount)?;
    // every entry is "\n<entry>," with the last comma of each section trimmed
    let lines = |part: &str| -> Option<Vec<String>> {
        if part.is_empty() { return Some(vec![]); }
        let part = part.strip_prefix("\n")?;
        let raw: Vec<&str> = part.split(",\n").collect();
        Some(raw.into_iter().map(|s| s.to_string()).collect())
    };
    let mut nodes: Vec<(i128, i128, Sx)> = vec![];
    for l in lines(nodes_part)? {
        if let Some(b) = l.strip_prefix("-N[").and_then(|x| x.strip_suffix("]")) {
            let (id, st) = parse_node(b)?;
            nodes.push((0, ids.canon_key(id), Sx::L(vec![Sx::Z(0), ids.canon(id), Sx::z(st)])));
        } else if let Some(b) = l.strip_prefix("+N[").and_then(|x| x.strip_suffix("]")) {
            let (id, st) = parse_node(b)?;
            nodes.push((1, ids.canon_key(id), Sx::L(vec![Sx::Z(1), ids.canon(id), Sx::z(st)])));
        } else if let Some(b) = l.strip_prefix("~N[ID: ").and_then(|x| x.strip_suffix("]")) {
            let (id, ch) = b.split_once(", ")?;
            let (s1, s2) = ch.split_once(" <= STATE => ")?;
            let id: usize = num(id)?;
            nodes.push((1, ids.canon_key(id), Sx::L(vec![Sx::Z(2), ids.canon(id), Sx::z(num::<i32>(s1)?), Sx::z(num::<i32>(s2)?)])));
        } else { return None; }
    }
    let mut edges: Vec<(i128, i128, Sx)> = vec![];
    for l in lines(edges_part)? {
        let kind = if l.starts_with("-E[") { 0 } else if l.starts_with("+E[") { 1 } else if l.starts_with("~E[") { 2 } else { return None };
        let b = l[3..].strip_suffix("]")?;
        let (d, e) = b.split_once(" <= ")?;
        let d: usize = num(d)?;
        if kind < 2 {
            let (o, w) = parse_edge(e)?;
            edges.push((if kind == 0 { 0 } else { 1 }, ids.canon_key(d), Sx::L(vec![Sx::Z(kind), ids.canon(d), ids.canon(o), f32_sx(w)])));
        } else {
            let e = e.strip_prefix("[ONID: ")?.strip_suffix("]")?;
            let (o, ch) = e.split_once(", ")?;
            let (w1, w2) = ch.split_once(" <= WEIGHT => ")?;
            let o: usize = num(o)?;
            edges.push((1, ids.canon_key(d), Sx::L(vec![Sx::Z(2), ids.canon(d), ids.canon(o), f32_sx(num::<f32>(w1)?), f32_sx(num::<f32>(w2)?)])));
        }
    }
    nodes.sort_by_key(|x| (x.0, x.1));   // stable
    edges.sort_by_key(|x| (x.0, x.1));
    Some(Sx::L(vec![
        Sx::L(vec![Sx::Z(ncount), Sx::L(nodes.into_iter().map(|x| x.2).collect())]),
        Sx::L(vec![Sx::Z(ecount), Sx::L(edges.into_iter().map(|x| x.2).collect())]),
    ]))
}

fn content(g: &Graph, ids: &Ids) -> Sx {
    let mut ns: Vec<(i128, Sx)> = g.nodes.iter().map(|(k, n)| {
        // the key, the node's own id and get_state must agree
        let st = if n.get_id() == *k && g.get_state(k) == Some(n.get_state()) { Sx::z(n.get_state()) } else { Sx::L(vec![]) };
        (ids.canon_key(*k), Sx::L(vec![ids.canon(*k), st]))
    }).collect();
    ns.sort_by_key(|x| x.0);
    let mut es: Vec<(i128, Sx)> = g.edges.iter().map(|(k, v)| {
        (ids.canon_key(*k), Sx::L(vec![ids.canon(*k), Sx::list(v.iter(), |e| Sx::L(vec![ids.canon(e.get_origin_id()), f32_sx(e.get_weight())]))]))
    }).collect();
    es.sort_by_key(|x| x.0);
    Sx::L(vec![Sx::L(ns.into_iter().map(|x| x.1).collect()), Sx::L(es.into_iter().map(|x| x.1).collect())])
}

fn play(c: &Sx) -> Option<(Vec<Graph>, Ids, Vec<Sx>)> {
    let c = c.as_l()?;
    if c.len() != 3 { return None; }
    let p = c[0].as_z()?;
    if p != 0 && p != 1 { return None; }
    let n = c[1].as_z()?;
    if n < 0 || n >= 16 { return None; }
    let n = n as usize;
    let mut regs: Vec<Graph> = (0..n).map(|_| Graph::new()).collect();
    let mut ids = Ids { issued: vec![] };
    let mut outs = Vec::new();
    for op in c[2].as_l()? {
        let op = op.as_l()?;
        let tag = op.get(0)?.as_z()?;
        let reg = |k: usize| -> Option<usize> { let r = op.get(k)?.as_usize()?; if r < n { Some(r) } else { None } };
        let arity = |k: usize| -> Option<()> { if op.len() == k { Some(()) } else { None } };
        let o = match tag {
            0 => { arity(2)?; let r = reg(1)?; regs[r] = Graph::new(); Sx::unit() }
            1 => { arity(3)?; let (a, b) = (reg(1)?, reg(2)?); let cl = regs[a].clone(); regs[b] = cl; Sx::unit() }
            2 => {
                arity(3)?;
                let r = reg(1)?;
                let id = regs[r].add_node(op[2].as_i32()?);
                ids.issued.push(id);
                ids.canon(id)
            }
            3 => { arity(3)?; let r = reg(1)?; let id = ids.resolve(op[2].as_z()?)?; regs[r].remove_node(id); Sx::unit() }
            4 => {
                arity(5)?;
                let r = reg(1)?;
                let (o, d) = (ids.resolve(op[2].as_z()?)?, ids.resolve(op[3].as_z()?)?);
                regs[r].add_edge(o, d, op[4].as_f32()?);
                Sx::unit()
            }
            5 => {
                arity(4)?;
                let r = reg(1)?;
                let (o, d) = (ids.resolve(op[2].as_z()?)?, ids.resolve(op[3].as_z()?)?);
                regs[r].remove_edge(o, d);
                Sx::unit()
            }
            6 => { arity(3)?; let r = reg(1)?; let id = ids.resolve(op[2].as_z()?)?; Sx::opt(regs[r].get_state(&id), |x| Sx::z(x)) }
            7 => { arity(4)?; let r = reg(1)?; let id = ids.resolve(op[2].as_z()?)?; regs[r].set_state(&id, op[3].as_i32()?); Sx::unit() }
            8 => {
                arity(4)?;
                let r = reg(1)?;
                let (o, d) = (ids.resolve(op[2].as_z()?)?, ids.resolve(op[3].as_z()?)?);
                Sx::opt(regs[r].get_weight(&o, &d), f32_sx)
            }
            9 => {
                arity(5)?;
                let r = reg(1)?;
                let (o, d) = (ids.resolve(op[2].as_z()?)?, ids.resolve(op[3].as_z()?)?);
                regs[r].set_weight(&o, &d, op[4].as_f32()?);
                Sx::unit()
            }
            10 => { arity(2)?; Sx::u(regs[reg(1)?].node_size()) }
            11 => { arity(2)?; Sx::u(regs[reg(1)?].edge_size()) }
            12 => {
                arity(3)?;
                let r = reg(1)?;
                // `id as i32` undone: ids of a run are far below 2^31
                let mut l: Vec<i128> = regs[r].filter(&states(&op[2])?).into_iter().map(|v| ids.canon_key(v as u32 as usize)).collect();
                l.sort();
                Sx::list(l, Sx::Z)
            }
            13 => {
                arity(3)?;
                let (a, b) = (reg(1)?, reg(2)?);
                match regs[a].diff(&regs[b]) {
                    None => Sx::L(vec![]),
                    Some(text) => match parse_diff(&text, &ids) {
                        Some(v) => Sx::L(vec![v]),
                        None => Sx::L(vec![Sx::str(&text)]),   // unexpected shape: shown verbatim
                    },
                }
            }
            14 | 15 | 16 => {
                arity(4)?;
                let r = reg(1)?;
                let id = ids.resolve(op[2].as_z()?)?;
                let sts = states(&op[3])?;
                let mut l = vec![];
                if tag != 15 { l.extend(preds(&regs[r], id, &sts)); }
                if tag != 14 { l.extend(succs(&regs[r], id, &sts, &ids)); }
                Sx::list(l, |x| ids.canon(x))
            }
            _ => return None,
        };
        outs.push(o);
    }
    Some((regs, ids, outs))
}

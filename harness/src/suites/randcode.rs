//! Suite "randcode" (C01, stream c): programs drawn from pushr's own random code generator.
//! case   : (profile N max_points (instruction name ...))
//! result : (N k (text ...))   k = number of programs that panicked, text = their Display form
//! `CodeGenerator::random_code` draws from thread_rng: the programs are NOT reproducible from the case, which
//! is why the text of every panicking program is part of the result.
//! Each program runs on a fresh PushState for at most 200 interpreter steps under its own catch_unwind.  The
//! instruction cache handed to the instructions (CODE.RAND) is the list of the case.  A program is stopped
//! (not counted) when it leaves the resource envelope of C01: see `inside_envelope`.
use crate::sx::Sx;
use pushr::push::instructions::{InstructionCache, InstructionSet};
use pushr::push::interpreter::PushInterpreter;
use pushr::push::item::{Item, PushType};
use pushr::push::random::CodeGenerator;
use pushr::push::state::PushState;
use std::panic::{catch_unwind, AssertUnwindSafe};

pub const SUITES: &[(&str, fn(&Sx) -> Sx)] = &[("randcode", randcode)];

const ALLOC_BOUND: i32 = 100_000;
const NBR_BOUND: i32 = 1_000;
const SIZE_BOUND: usize = 200_000;
const RAND_POINTS_BOUND: u32 = 1_000;
const MAX_STEPS: usize = 200;

const ALLOC_NAMES: &[&str] = &[
    "BOOLVECTOR.ONES", "BOOLVECTOR.ZEROS", "INTVECTOR.ONES", "INTVECTOR.ZEROS", "FLOATVECTOR.ONES", "FLOATVECTOR.ZEROS",
    "FLOATVECTOR.SINE", "BOOLVECTOR.RAND", "INTVECTOR.RAND", "FLOATVECTOR.RAND",
];
const NBR_NAMES: &[&str] = &["LIST.NEIGHBOR*IDS", "LIST.NEIGHBOR*BVALS", "LIST.NEIGHBOR*IVALS", "LIST.NEIGHBOR*FVALS"];

extern "C" {
    fn dup(fd: i32) -> i32;
    fn dup2(old: i32, new: i32) -> i32;
    fn close(fd: i32) -> i32;
}

/// fd 1 points at /dev/null while alive (instruction bodies that println! must not write into the result stream)
pub struct Silence { saved: i32 }
impl Silence {
    pub fn new() -> Silence {
        use std::io::Write;
        use std::os::unix::io::AsRawFd;
        let _ = std::io::stdout().flush();
        let saved = unsafe { dup(1) };
        if let Ok(f) = std::fs::OpenOptions::new().write(true).open("/dev/null") {
            unsafe { dup2(f.as_raw_fd(), 1); }
        }
        Silence { saved }
    }
}
impl Drop for Silence {
    fn drop(&mut self) {
        use std::io::Write;
        let _ = std::io::stdout().flush();
        if self.saved >= 0 { unsafe { dup2(self.saved, 1); close(self.saved); } }
    }
}

/// points, plus name characters and vector elements (the measure of Suites/SNoPanic.v)
fn weight(it: &Item) -> usize {
    match it {
        Item::List { items } => {
            let mut w = 1;
            for i in 0..items.size() { w += weight(items.get(i).unwrap()); }
            w
        }
        Item::InstructionMeta { name } => 1 + name.chars().count(),
        Item::Identifier { name } => 1 + name.chars().count(),
        Item::Literal { push_type } => match push_type {
            PushType::BoolVector { val } => 1 + val.values.len(),
            PushType::IntVector { val } => 1 + val.values.len(),
            PushType::FloatVector { val } => 1 + val.values.len(),
            _ => 1,
        },
    }
}

fn measure(st: &PushState) -> usize {
    let mut m = 0;
    for i in 0..st.code_stack.size() { m += weight(st.code_stack.get(i).unwrap()); }
    for i in 0..st.exec_stack.size() { m += weight(st.exec_stack.get(i).unwrap()); }
    for (k, v) in st.name_bindings.iter() { m += k.chars().count() + weight(v); }
    for i in 0..st.name_stack.size() { m += st.name_stack.get(i).unwrap().chars().count() + 1; }
    for i in 0..st.bool_vector_stack.size() { m += st.bool_vector_stack.get(i).unwrap().values.len() + 1; }
    for i in 0..st.float_vector_stack.size() { m += st.float_vector_stack.get(i).unwrap().values.len() + 1; }
    for i in 0..st.int_vector_stack.size() { m += st.int_vector_stack.get(i).unwrap().values.len() + 1; }
    m + st.bool_stack.size() + st.float_stack.size() + st.int_stack.size() + st.index_stack.size() + st.graph_stack.iter().count()
}

fn ints_le(st: &PushState, k: usize, bound: i32) -> bool {
    (0..k).all(|i| st.int_stack.get(i).map_or(true, |z| *z <= bound))
}

/// the guard evaluated before every step
fn inside_envelope(st: &PushState) -> bool {
    if let Some(Item::InstructionMeta { name }) = st.exec_stack.get(0) {
        let n: &str = name;
        if n == "EXEC.CMD" { return false; }
        if ALLOC_NAMES.contains(&n) && !ints_le(st, 1, ALLOC_BOUND) { return false; }
        if NBR_NAMES.contains(&n) && !ints_le(st, 4, NBR_BOUND) { return false; }
        if n == "CODE.RAND" {
            if let Some(z) = st.int_stack.get(0) {
                let limit = u32::min(z.unsigned_abs(), st.configuration.max_points_in_random_expressions.unsigned_abs());
                if limit > RAND_POINTS_BOUND { return false; }
            }
        }
    }
    measure(st) <= SIZE_BOUND
}

fn randcode(c: &Sx) -> Sx {
    let c = match c.as_l() { Some(l) if l.len() == 4 => l, _ => return Sx::bad() };
    if c[0].as_bool().is_none() { return Sx::bad(); }
    let n = match c[1].as_usize() { Some(n) => n, None => return Sx::bad() };
    let maxp = match c[2].as_usize() { Some(m) if m >= 2 => m, _ => return Sx::bad() };
    let names: Option<Vec<String>> = match c[3].as_l() { Some(l) => l.iter().map(|x| x.as_string()).collect(), None => None };
    let names = match names { Some(v) => v, None => return Sx::bad() };
    let cache = InstructionCache::new(names);
    let mut is = InstructionSet::new();
    is.load();
    let quiet = Silence::new();
    let mut panicked: Vec<String> = vec![];
    for _ in 0..n {
        let blank = PushState::new();
        let item = match catch_unwind(AssertUnwindSafe(|| CodeGenerator::random_code(&blank, &cache, maxp))) {
            Ok(Some(it)) => it,
            Ok(None) => continue,
            Err(_) => { panicked.push(String::from("<CodeGenerator::random_code panicked>")); continue; }
        };
        let text = match catch_unwind(AssertUnwindSafe(|| item.to_string())) {
            Ok(t) => t,
            Err(_) => { panicked.push(String::from("<Display of the generated item panicked>")); continue; }
        };
        let r = catch_unwind(AssertUnwindSafe(|| {
            let mut st = PushState::new();
            st.exec_stack.push(item);
            for _ in 0..MAX_STEPS {
                if !inside_envelope(&st) { break; }
                if PushInterpreter::step(&mut st, &mut is, &cache) { break; }
            }
        }));
        if r.is_err() { panicked.push(text); }
    }
    drop(quiet);
    Sx::L(vec![Sx::u(n), Sx::u(panicked.len()), Sx::list(panicked.iter(), |t| Sx::str(t))])
}

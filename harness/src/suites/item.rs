//! Suite "item": one call of a tree function of pushr::push::item::Item
//! (see coq/theories/Suites/SItemApi.v for the case and payload formats).
use crate::conv::{item_to_sx, sx_to_item};
use crate::sx::Sx;
use pushr::push::item::Item;

pub const SUITES: &[(&str, fn(&Sx) -> Sx)] = &[("item", run)];

fn run(c: &Sx) -> Sx {
    match go(c) { Some(v) => v, None => Sx::bad() }
}

fn go(c: &Sx) -> Option<Sx> {
    let c = c.as_l()?;
    if c.len() < 4 { return None; }
    // c[0] = profile (selects the binary), c[1] = libm table (unused: no libm call in item.rs)
    c[1].as_l()?;
    let op = c[2].as_z()?;
    let a = &c[3..];
    let it = |k: usize| -> Option<Item> { sx_to_item(a.get(k)?) };
    let us = |k: usize| -> Option<usize> { a.get(k)?.as_usize() };
    let arity = |n: usize| -> Option<()> { if a.len() == n { Some(()) } else { None } };
    Some(match op {
        0 => { arity(1)?; Sx::u(Item::size(&it(0)?)) }
        1 => { arity(1)?; Sx::u(Item::shallow_size(&it(0)?)) }
        2 => {
            arity(2)?;
            let (t, d) = (it(0)?, us(1)?);
            match Item::traverse(&t, d) {
                Ok(x) => Sx::L(vec![Sx::Z(0), item_to_sx(&x)]),
                Err(r) => Sx::L(vec![Sx::Z(1), Sx::u(r)]),
            }
        }
        3 => {
            arity(3)?;
            let (mut t, x, d) = (it(0)?, it(1)?, us(2)?);
            let r = Item::insert(&mut t, &x, d);
            let r = match r {
                Ok(b) => Sx::L(vec![Sx::Z(0), Sx::b(b)]),
                Err(r) => Sx::L(vec![Sx::Z(1), Sx::u(r)]),
            };
            Sx::L(vec![item_to_sx(&t), r])
        }
        4 => {
            arity(3)?;
            let (mut t, pat, sub) = (it(0)?, it(1)?, it(2)?);
            let m = Item::substitute(&mut t, &pat, &sub);
            Sx::L(vec![item_to_sx(&t), Sx::b(m)])
        }
        5 => {
            arity(2)?;
            let (t, pat) = (it(0)?, it(1)?);
            Sx::opt(Item::contains(&t, &pat, 0).ok(), Sx::u)
        }
        6 => {
            arity(3)?;
            let (t, pat, n) = (it(0)?, it(1)?, us(2)?);
            let mut cnt = 0usize;
            let r = Item::find(&t, &pat, &mut cnt, &n);
            match r {
                Ok(x) => Sx::L(vec![Sx::L(vec![item_to_sx(&x)]), Sx::u(cnt)]),
                Err(k) => {
                    // the Err payload and the counter are the same number by construction; report a mismatch distinctly
                    if k != cnt { Sx::L(vec![Sx::Z(-1), Sx::u(k), Sx::u(cnt)]) } else { Sx::L(vec![Sx::L(vec![]), Sx::u(cnt)]) }
                }
            }
        }
        7 => {
            arity(2)?;
            let (t, pat) = (it(0)?, it(1)?);
            match Item::container(&t, &pat) {
                Ok(x) => Sx::L(vec![Sx::Z(0), item_to_sx(&x)]),
                Err(b) => Sx::L(vec![Sx::Z(1), Sx::b(b)]),
            }
        }
        8 => { arity(2)?; Sx::b(Item::equals(&it(0)?, &it(1)?)) }
        9 => { arity(2)?; Sx::b(it(0)? == it(1)?) }
        10 => { arity(1)?; Sx::str(&it(0)?.to_string()) }
        _ => return None,
    })
}

//! Suite "run": executes interpreter steps / PushInterpreter::run on a whole PushState given on the wire.
//! Suite "graphq": the same, with HashMap-ordered results canonicalised (top INTVECTOR sorted, lines of the
//! top NAME sorted) — see coq/theories/Suites/SGraphQ.v.
//! Suite "names": the names registered by InstructionSet::load().
//! Node ids: the id protocol is described in the header of coq/theories/Model/IGraph.v.
use crate::conv::{state_to_sx, sx_to_state_at, BuildErr};
use crate::sx::Sx;
use pushr::push::instructions::InstructionSet;
use pushr::push::interpreter::{PushInterpreter, PushInterpreterState};
use pushr::push::state::PushState;

pub const SUITES: &[(&str, fn(&Sx) -> Sx)] = &[("run", run), ("graphq", graphq), ("names", names)];

fn names(_c: &Sx) -> Sx {
    let mut is = InstructionSet::new();
    is.load();
    let mut l = is.cache().list;
    l.sort();
    Sx::list(l.iter(), |n| Sx::str(n))
}

extern "C" {
    fn dup(fd: i32) -> i32;
    fn dup2(old: i32, new: i32) -> i32;
    fn close(fd: i32) -> i32;
    fn fcntl(fd: i32, cmd: i32, arg: i32) -> i32;
}

/// While alive, file descriptor 1 points at /dev/null: instruction bodies that `println!` (GRAPH.EDGE*HISTORY)
/// must not write into the result stream.  Restored on drop, also when the steps panic.
struct Silence { saved: i32 }
impl Silence {
    fn new() -> Silence {
        use std::io::Write;
        use std::os::unix::io::AsRawFd;
        let _ = std::io::stdout().flush();
        let saved = unsafe { dup(1) };
        // the saved descriptor must not leak into a process EXEC.CMD starts (it would keep the result pipe open)
        if saved >= 0 { unsafe { fcntl(saved, 2 /* F_SETFD */, 1 /* FD_CLOEXEC */); } }
        if let Ok(f) = std::fs::OpenOptions::new().write(true).open("/dev/null") {
            unsafe { dup2(f.as_raw_fd(), 1); }
        }
        Silence { saved }
    }
}
impl Drop for Silence {
    fn drop(&mut self) {
        use std::io::Write;
        let _ = std::io::stdout().flush();
        if self.saved >= 0 { unsafe { dup2(self.saved, 1); close(self.saved); } }
    }
}

/// A case whose node ids lie below the counter of this process: run it in a fresh process (counter = 1).
fn in_fresh_process(suite: &str, c: &Sx) -> Sx {
    use std::io::Write;
    use std::process::{Command, Stdio};
    if std::env::var("PUSHR_HARNESS_CHILD").is_ok() { return Sx::bad(); }
    let exe = match std::env::current_exe() { Ok(e) => e, Err(_) => return Sx::bad() };
    let mut line = String::from(suite);
    line.push(' ');
    c.print(&mut line);
    line.push('\n');
    let child = Command::new(exe).env("PUSHR_HARNESS_CHILD", "1").stdin(Stdio::piped()).stdout(Stdio::piped()).stderr(Stdio::null()).spawn();
    let mut child = match child { Ok(c) => c, Err(_) => return Sx::bad() };
    if child.stdin.take().map(|mut i| i.write_all(line.as_bytes())).is_none() { return Sx::bad(); }
    let out = match child.wait_with_output() { Ok(o) => o, Err(_) => return Sx::bad() };
    let text = String::from_utf8_lossy(&out.stdout);
    let first = text.lines().next().unwrap_or("");
    match Sx::parse(first) {
        Ok(Sx::L(v)) if v.len() == 2 && v[0] == Sx::Z(0) => v[1].clone(),
        Ok(Sx::L(v)) if v.len() == 1 && v[0] == Sx::Z(1) => panic!("panicked in the child process"),
        _ => Sx::bad(),
    }
}

/// (finished / outcome, final state) of a `run` case; Err(Regress) = needs a fresh process
fn exec(c: &Sx) -> Result<(Sx, PushState), BuildErr> {
    let c = c.as_l().ok_or(BuildErr::Bad)?;
    if c.len() != 6 { return Err(BuildErr::Bad); }
    let mode = c[3].as_z().ok_or(BuildErr::Bad)?;
    let arg = c[4].as_z().ok_or(BuildErr::Bad)?;
    let next_node = c[5].as_l().and_then(|w| w.get(0)).and_then(|z| z.as_z()).ok_or(BuildErr::Bad)?;
    let mut st = sx_to_state_at(&c[2], next_node)?;
    let mut is = InstructionSet::new();
    is.load();
    let _quiet = Silence::new();
    if mode == 0 {
        let icache = is.cache();
        let mut fin = false;
        for _ in 0..arg {
            if PushInterpreter::step(&mut st, &mut is, &icache) { fin = true; break; }
        }
        Ok((Sx::b(fin), st))
    } else {
        let o = match PushInterpreter::run(&mut st, &mut is) {
            PushInterpreterState::NoErrors => 0,
            PushInterpreterState::StepLimitExceeded => 1,
            PushInterpreterState::TimeLimitExceeded => 2,
            PushInterpreterState::GrowthCapExceeded => 3,
        };
        Ok((Sx::Z(o), st))
    }
}

fn run(c: &Sx) -> Sx {
    match exec(c) {
        Ok((o, st)) => Sx::L(vec![o, state_to_sx(&st)]),
        Err(BuildErr::Regress) => in_fresh_process("run", c),
        Err(BuildErr::Bad) => Sx::bad(),
    }
}

fn graphq(c: &Sx) -> Sx {
    match exec(c) {
        Ok((o, mut st)) => {
            // canonical forms of the HashMap-ordered results
            if let Some(v) = st.int_vector_stack.get_mut(0) { v.values.sort(); }
            if let Some(n) = st.name_stack.get_mut(0) {
                let mut lines: Vec<String> = n.split('\n').map(|l| l.trim_end_matches(|ch| ch == ',' || ch == ' ').to_string()).collect();
                lines.sort();
                *n = lines.join("\n");
            }
            Sx::L(vec![o, state_to_sx(&st)])
        }
        Err(BuildErr::Regress) => in_fresh_process("graphq", c),
        Err(BuildErr::Bad) => Sx::bad(),
    }
}

//! Suite "run": executes interpreter steps / PushInterpreter::run on a whole PushState given on the wire.
//! Suite "names": the names registered by InstructionSet::load().
use crate::conv::{state_to_sx, sx_to_state};
use crate::sx::Sx;
use pushr::push::instructions::InstructionSet;
use pushr::push::interpreter::{PushInterpreter, PushInterpreterState};

pub const SUITES: &[(&str, fn(&Sx) -> Sx)] = &[("run", run), ("names", names)];

fn names(_c: &Sx) -> Sx {
    let mut is = InstructionSet::new();
    is.load();
    let mut l = is.cache().list;
    l.sort();
    Sx::list(l.iter(), |n| Sx::str(n))
}

fn run(c: &Sx) -> Sx {
    let go = || -> Option<Sx> {
        let c = c.as_l()?;
        let mut st = sx_to_state(c.get(2)?)?;
        let mode = c.get(3)?.as_z()?;
        let arg = c.get(4)?.as_z()?;
        let mut is = InstructionSet::new();
        is.load();
        if mode == 0 {
            let icache = is.cache();
            let mut fin = false;
            for _ in 0..arg {
                if PushInterpreter::step(&mut st, &mut is, &icache) { fin = true; break; }
            }
            Some(Sx::L(vec![Sx::b(fin), state_to_sx(&st)]))
        } else {
            let o = match PushInterpreter::run(&mut st, &mut is) {
                PushInterpreterState::NoErrors => 0,
                PushInterpreterState::StepLimitExceeded => 1,
                PushInterpreterState::TimeLimitExceeded => 2,
                PushInterpreterState::GrowthCapExceeded => 3,
            };
            Some(Sx::L(vec![Sx::Z(o), state_to_sx(&st)]))
        }
    };
    go().unwrap_or_else(Sx::bad)
}

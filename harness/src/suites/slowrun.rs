//! Suite "slowrun" (C02, runtime only): a program of `nsteps` slow steps (INTVECTOR.SUM on an
//! n-element vector) under a small eval_time_limit.  The time a single step takes is measured first
//! on a copy of the state (minimum of three), then PushInterpreter::run is timed.
//! case: (profile () nsteps limit_ms n)
//! result: (0 (outcome exec_remaining int_depth min_step_us run_us))
use crate::sx::Sx;
use pushr::push::instructions::InstructionSet;
use pushr::push::interpreter::{PushInterpreter, PushInterpreterState};
use pushr::push::item::Item;
use pushr::push::state::PushState;
use pushr::push::vector::IntVector;
use std::time::Instant;

pub const SUITES: &[(&str, fn(&Sx) -> Sx)] = &[("slowrun", run)];

fn build(nsteps: usize, n: usize) -> PushState {
    let mut s = PushState::new();
    let mut v = Vec::with_capacity(n);
    for i in 0..n { v.push((i % 7) as i32 - 3); }
    s.int_vector_stack.push(IntVector::new(v));
    for _ in 0..nsteps { s.exec_stack.push(Item::instruction("INTVECTOR.SUM".to_string())); }
    s
}

fn run(c: &Sx) -> Sx {
    let go = || -> Option<Sx> {
        let c = c.as_l()?;
        let nsteps = c.get(2)?.as_z()? as usize;
        let limit = c.get(3)?.as_z()? as u64;
        let n = c.get(4)?.as_z()? as usize;
        let mut is = InstructionSet::new();
        is.load();
        let icache = is.cache();
        let mut probe = build(3, n);
        let mut min_us = u128::MAX;
        for _ in 0..3 {
            let t = Instant::now();
            PushInterpreter::step(&mut probe, &mut is, &icache);
            min_us = min_us.min(t.elapsed().as_micros());
        }
        drop(probe);
        let mut s = build(nsteps, n);
        s.configuration.eval_time_limit = limit;
        s.configuration.eval_push_limit = i32::MAX;
        s.configuration.growth_cap = 500;
        let t = Instant::now();
        let o = match PushInterpreter::run(&mut s, &mut is) {
            PushInterpreterState::NoErrors => 0,
            PushInterpreterState::StepLimitExceeded => 1,
            PushInterpreterState::TimeLimitExceeded => 2,
            PushInterpreterState::GrowthCapExceeded => 3,
        };
        let run_us = t.elapsed().as_micros();
        Some(Sx::L(vec![Sx::Z(o), Sx::Z(s.exec_stack.size() as i128), Sx::Z(s.int_stack.size() as i128),
                        Sx::Z(min_us as i128), Sx::Z(run_us as i128)]))
    };
    go().unwrap_or_else(Sx::bad)
}

//! Suite "deepnest" (C01, stream d; implementation only): a program next to a deeply nested item.
//! case   : (profile depth core where (program item ...) eval_push_limit)
//!          core 0: the innermost item is the integer 1, 1: the empty list, 2: the name A
//!          where 0: the nested item is pushed on CODE, 1: on EXEC (below the program), 2: both
//! result : (outcome state-size)
//! The nested item is built here by a loop, and nothing in this file recurses over it: parsing, conversion and
//! printing of the harness stay flat, so that native stack use comes from pushr alone (Item::size, Display, Clone,
//! equality, the compiler-generated Drop).  The check runs each case in its own process.
use crate::conv::sx_to_item;
use crate::suites::randcode::Silence;
use crate::sx::Sx;
use pushr::push::instructions::InstructionSet;
use pushr::push::interpreter::{PushInterpreter, PushInterpreterState};
use pushr::push::item::Item;
use pushr::push::state::PushState;

pub const SUITES: &[(&str, fn(&Sx) -> Sx)] = &[("deepnest", deepnest)];

fn nested(depth: usize, core: i128) -> Option<Item> {
    let mut it = match core {
        0 => Item::int(1),
        1 => Item::list(vec![]),
        2 => Item::name(String::from("A")),
        _ => return None,
    };
    for _ in 0..depth { it = Item::list(vec![it]); }
    Some(it)
}

fn deepnest(c: &Sx) -> Sx {
    let c = match c.as_l() { Some(l) if l.len() == 6 => l, _ => return Sx::bad() };
    if c[0].as_bool().is_none() { return Sx::bad(); }
    let depth = match c[1].as_usize() { Some(d) if d <= 200_000 => d, _ => return Sx::bad() };
    let core = match c[2].as_z() { Some(k) => k, None => return Sx::bad() };
    let place = match c[3].as_z() { Some(w) if (0..=2).contains(&w) => w, _ => return Sx::bad() };
    let prog: Option<Vec<Item>> = match c[4].as_l() { Some(l) => l.iter().map(sx_to_item).collect(), None => None };
    let prog = match prog { Some(p) => p, None => return Sx::bad() };
    let limit = match c[5].as_i32() { Some(l) => l, None => return Sx::bad() };
    let mut st = PushState::new();
    st.configuration.eval_push_limit = limit;
    st.code_stack.push(Item::int(7));
    if place == 0 || place == 2 {
        match nested(depth, core) { Some(it) => st.code_stack.push(it), None => return Sx::bad() }
    }
    if place == 1 || place == 2 {
        match nested(depth, core) { Some(it) => st.exec_stack.push(it), None => return Sx::bad() }
    }
    // wire order is top-first
    for it in prog.into_iter().rev() { st.exec_stack.push(it); }
    let mut is = InstructionSet::new();
    is.load();
    let quiet = Silence::new();
    let o = match PushInterpreter::run(&mut st, &mut is) {
        PushInterpreterState::NoErrors => 0,
        PushInterpreterState::StepLimitExceeded => 1,
        PushInterpreterState::TimeLimitExceeded => 2,
        PushInterpreterState::GrowthCapExceeded => 3,
    };
    let size = st.size();
    drop(st);
    drop(quiet);
    Sx::L(vec![Sx::Z(o), Sx::u(size)])
}

//! Suite "runacct" (C02): PushInterpreter::run on one copy of the state, and on a second copy an
//! independent accounting written here: copy EXEC to CODE (our own copy), then call step() one at a time with our own
//! step counter and our own size comparison; the completing step on an empty EXEC stack must leave the state as it was.
use crate::conv::{state_to_sx, sx_to_state};
use crate::sx::Sx;
use pushr::push::instructions::InstructionSet;
use pushr::push::interpreter::{PushInterpreter, PushInterpreterState};

pub const SUITES: &[(&str, fn(&Sx) -> Sx)] = &[("runacct", run)];

fn code(o: PushInterpreterState) -> i128 {
    match o {
        PushInterpreterState::NoErrors => 0,
        PushInterpreterState::StepLimitExceeded => 1,
        PushInterpreterState::TimeLimitExceeded => 2,
        PushInterpreterState::GrowthCapExceeded => 3,
    }
}

/// what the growth cap is documented to watch: the sum of the nine main stack depths (our own sum, not PushState::size)
fn own_size(s: &pushr::push::state::PushState) -> u128 {
    (s.bool_stack.size() + s.code_stack.size() + s.exec_stack.size() + s.float_stack.size() + s.int_stack.size()
        + s.name_stack.size() + s.bool_vector_stack.size() + s.float_vector_stack.size() + s.int_vector_stack.size()) as u128
}

fn run(c: &Sx) -> Sx {
    let go = || -> Option<Sx> {
        let c = c.as_l()?;
        let mut a = sx_to_state(c.get(2)?)?;
        let mut b = sx_to_state(c.get(2)?)?;
        let mut is = InstructionSet::new();
        is.load();
        let o = code(PushInterpreter::run(&mut a, &mut is));
        // independent accounting
        let mut is2 = InstructionSet::new();
        is2.load();
        let icache = is2.cache();
        let limit = b.configuration.eval_push_limit as i64;
        let cap = b.configuration.growth_cap as u128;
        // our own copy of the program onto the CODE stack (order preserved), not the interpreter's
        let n = b.exec_stack.size();
        if let Some(items) = b.exec_stack.copy_vec(n) { b.code_stack.push_vec(items); }
        let mut executed: i64 = 0; // step() calls that did not report completion
        let mut empty_step_changes = 0; // 1 when the completing step (EXEC empty) altered the state
        let o2;
        loop {
            if executed > limit { o2 = 1; break; }
            let before = own_size(&b);
            let snapshot = if b.exec_stack.size() == 0 { Some(state_to_sx(&b)) } else { None };
            if PushInterpreter::step(&mut b, &mut is2, &icache) {
                if let Some(s0) = snapshot { if s0 != state_to_sx(&b) { empty_step_changes = 1; } }
                o2 = 0; break;
            }
            executed += 1;
            if own_size(&b) > before + cap { o2 = 3; break; }
        }
        Some(Sx::L(vec![
            Sx::L(vec![Sx::Z(o), state_to_sx(&a)]),
            Sx::L(vec![Sx::Z(o2), state_to_sx(&b), Sx::Z(executed as i128), Sx::Z(empty_step_changes)]),
        ]))
    };
    go().unwrap_or_else(Sx::bad)
}

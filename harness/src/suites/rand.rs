//! Suite "rand": the random generators of src/push/random.rs and the *.RAND instructions.
//! The RNG of the implementation cannot be seeded (thread_rng, no source hook), so a case asks for
//! N independent draws and the result has two components:
//!   (det draws)
//! `det` is what does NOT depend on the RNG (None/Some shape, the state around the pushed value); it
//! is compared with the model's result.  `draws` are the N observed values; only the property
//! checker (Suites/SRand.v pm_rand_check) looks at them.
//!
//! case: (profile () op n args)      [a trailing model tape is ignored here]
//!   op 1  (r)                               decompose                -> draws: part lists
//!   op 2  (state instrs points steps deny)  random_code_with_size    -> draws: (item ok)
//!   op 3  (state instrs bound steps deny)   random_code              -> draws: (() | (item) ok)
//!   op 4  (size sparsity)                   random_bool_vector       -> draws: () | (vec)
//!   op 5  (size mean sd)                    random_float_vector
//!   op 6  (size min max)                    random_int_vector
//!   op 7  (state)                           random_float             -> draws: () | (bits)
//!   op 8  (state)                           random_integer
//!   op 9  ()                                new_random_name          -> draws: names
//!   op 10 (state)                           existing_random_name
//!   op 11 (state instrs name steps deny)    the instruction `name` executed on the state;
//!            det = (pushed? state-without-the-pushed-value), draws: (value ok) of the target stack
//! `ok` = 1 when the generated program could be printed, parsed back and executed for `steps`
//! interpreter steps without a panic (0 = panicked, 2 = not executed: contains a denied instruction).
use crate::conv::{item_to_sx, state_to_sx, sx_to_state};
use crate::sx::{f32_sx, Sx};
use pushr::push::instructions::{InstructionCache, InstructionSet};
use pushr::push::interpreter::PushInterpreter;
use pushr::push::item::Item;
use pushr::push::parser::PushParser;
use pushr::push::random::CodeGenerator;
use pushr::push::state::PushState;
use std::panic;

pub const SUITES: &[(&str, fn(&Sx) -> Sx)] = &[("rand", rand), ("rand.newnames", newnames)];

/// Suite "rand.newnames": (profile () n) -> (outside first_outside notname first_notname)
/// n draws of CodeGenerator::new_random_name(); `outside` counts names that are not two or more runs of
/// ASCII lower-case letters joined by '-' (what names::Generator::default() yields); `notname` counts names
/// that PushParser does not read back as the identifier itself.
fn newnames(c: &Sx) -> Sx {
    let go = || -> Option<Sx> {
        let c = c.as_l()?;
        let n = c.get(2)?.as_z()?;
        let mut is = InstructionSet::new();
        is.load();
        let (mut outside, mut notname) = (0i128, 0i128);
        let (mut first_outside, mut first_notname) = (String::new(), String::new());
        let mut st = PushState::new();
        for _ in 0..n {
            let name = CodeGenerator::new_random_name();
            let parts: Vec<&str> = name.split('-').collect();
            let shaped = parts.len() >= 2 && parts.iter().all(|p| !p.is_empty() && p.bytes().all(|b| b.is_ascii_lowercase()));
            if !shaped {
                if outside == 0 { first_outside = name.clone(); }
                outside += 1;
            }
            if !shaped {
                // only a name outside the assumed alphabet can lex as something else
                st.exec_stack.flush();
                PushParser::parse_program(&mut st, &is, &name);
                let back = match (st.exec_stack.size(), st.exec_stack.get(0)) {
                    (1, Some(Item::Identifier { name: n2 })) => *n2 == name,
                    _ => false,
                };
                if !back {
                    if notname == 0 { first_notname = name.clone(); }
                    notname += 1;
                }
            }
        }
        Some(Sx::L(vec![Sx::Z(outside), Sx::str(&first_outside), Sx::Z(notname), Sx::str(&first_notname)]))
    };
    go().unwrap_or_else(Sx::bad)
}

fn names_of(s: &Sx) -> Option<Vec<String>> {
    s.as_l()?.iter().map(|n| n.as_string()).collect()
}

fn contains_denied(it: &Item, deny: &[String]) -> bool {
    match it {
        Item::List { items } => (0..items.size()).any(|i| contains_denied(items.get(i).unwrap(), deny)),
        Item::InstructionMeta { name } => deny.iter().any(|d| d == name),
        _ => false,
    }
}

/// print, parse back, execute a few steps with the full instruction set: 1 ok, 0 panicked, 2 skipped
fn exercise(it: &Item, steps: i128, deny: &[String]) -> i128 {
    if steps < 0 { return 2; }
    let text = it.to_string();
    if contains_denied(it, deny) { return 2; }
    if std::env::var("RAND_TRACE").is_ok() { eprintln!("EXERCISE {}", text); }
    let it = it.clone();
    let r = panic::catch_unwind(move || {
        let mut is = InstructionSet::new();
        is.load();
        let mut parsed = PushState::new();
        PushParser::parse_program(&mut parsed, &is, &text);
        let icache = is.cache();
        // the printed text, parsed back, must execute ...
        for _ in 0..steps {
            if PushInterpreter::step(&mut parsed, &mut is, &icache) { break; }
        }
        // ... and so must the generated item itself
        let mut st = PushState::new();
        st.exec_stack.push(it);
        for _ in 0..steps {
            if PushInterpreter::step(&mut st, &mut is, &icache) { break; }
        }
        let _ = st.to_string();
    });
    if r.is_ok() { 1 } else { 0 }
}

/// History: before the observed draw the SAME PushState has already served a scalar draw under other bounds
/// (far away from the case's); a generator must read the configuration that is current at the draw.
fn warm_up(st: &mut PushState) {
    let c = &st.configuration;
    let saved = (c.min_random_integer, c.max_random_integer, c.min_random_float, c.max_random_float);
    st.configuration.min_random_integer = 1_000_000_000;
    st.configuration.max_random_integer = 1_000_000_007;
    st.configuration.min_random_float = 1.0e30;
    st.configuration.max_random_float = 2.0e30;
    let _ = panic::catch_unwind(panic::AssertUnwindSafe(|| {
        let _ = CodeGenerator::random_integer(st);
        let _ = CodeGenerator::random_float(st);
    }));
    st.configuration.min_random_integer = saved.0;
    st.configuration.max_random_integer = saved.1;
    st.configuration.min_random_float = saved.2;
    st.configuration.max_random_float = saved.3;
}

fn all_same(dets: Vec<Sx>) -> Sx {
    match dets.first() {
        None => Sx::L(vec![]),
        Some(d) => if dets.iter().all(|x| x == d) { d.clone() } else { Sx::L(vec![Sx::Z(-1)]) },
    }
}

fn rand(c: &Sx) -> Sx {
    let go = || -> Option<Sx> {
        let c = c.as_l()?;
        let op = c.get(2)?.as_z()?;
        let n = c.get(3)?.as_z()?;
        let a = c.get(4)?.as_l()?;
        let mut dets: Vec<Sx> = Vec::new();
        let mut draws: Vec<Sx> = Vec::new();
        for _ in 0..n {
            match op {
                1 => {
                    let r = a.get(0)?.as_usize()?;
                    let mut v: Vec<usize> = vec![];
                    CodeGenerator::decompose(&mut v, r);
                    dets.push(Sx::L(vec![]));
                    draws.push(Sx::list(v.iter(), |x| Sx::u(*x)));
                }
                2 | 3 => {
                    let st = sx_to_state(a.get(0)?)?;
                    let ic = InstructionCache::new(names_of(a.get(1)?)?);
                    let k = a.get(2)?.as_usize()?;
                    let steps = a.get(3)?.as_z()?;
                    let deny = names_of(a.get(4)?)?;
                    if op == 2 {
                        let it = CodeGenerator::random_code_with_size(&st, &ic, k);
                        dets.push(Sx::L(vec![]));
                        draws.push(Sx::L(vec![item_to_sx(&it), Sx::Z(exercise(&it, steps, &deny))]));
                    } else {
                        match CodeGenerator::random_code(&st, &ic, k) {
                            None => { dets.push(Sx::Z(0)); draws.push(Sx::L(vec![Sx::L(vec![]), Sx::Z(2)])); }
                            Some(it) => {
                                dets.push(Sx::Z(1));
                                draws.push(Sx::L(vec![Sx::L(vec![item_to_sx(&it)]), Sx::Z(exercise(&it, steps, &deny))]));
                            }
                        }
                    }
                }
                4 => {
                    let r = CodeGenerator::random_bool_vector(a.get(0)?.as_i32()?, a.get(1)?.as_f32()?);
                    dets.push(Sx::b(r.is_some()));
                    draws.push(Sx::opt(r, |v| Sx::list(v.values.iter(), |b| Sx::b(*b))));
                }
                5 => {
                    let r = CodeGenerator::random_float_vector(a.get(0)?.as_i32()?, a.get(1)?.as_f32()?, a.get(2)?.as_f32()?);
                    dets.push(Sx::b(r.is_some()));
                    draws.push(Sx::opt(r, |v| Sx::list(v.values.iter(), |f| f32_sx(*f))));
                }
                6 => {
                    let r = CodeGenerator::random_int_vector(a.get(0)?.as_i32()?, a.get(1)?.as_i32()?, a.get(2)?.as_i32()?);
                    dets.push(Sx::b(r.is_some()));
                    draws.push(Sx::opt(r, |v| Sx::list(v.values.iter(), |z| Sx::z(*z))));
                }
                7 => {
                    let mut st = sx_to_state(a.get(0)?)?;
                    warm_up(&mut st);
                    let r = CodeGenerator::random_float(&st);
                    dets.push(Sx::b(r.is_some()));
                    draws.push(Sx::opt(r, f32_sx));
                }
                8 => {
                    let mut st = sx_to_state(a.get(0)?)?;
                    warm_up(&mut st);
                    let r = CodeGenerator::random_integer(&st);
                    dets.push(Sx::b(r.is_some()));
                    draws.push(Sx::opt(r, |z| Sx::z(z)));
                }
                9 => {
                    dets.push(Sx::L(vec![]));
                    draws.push(Sx::str(&CodeGenerator::new_random_name()));
                }
                10 => {
                    let st = sx_to_state(a.get(0)?)?;
                    dets.push(Sx::L(vec![]));
                    draws.push(Sx::str(&CodeGenerator::existing_random_name(&st)));
                }
                11 => {
                    let mut st = sx_to_state(a.get(0)?)?;
                    let ic = InstructionCache::new(names_of(a.get(1)?)?);
                    let name = a.get(2)?.as_string()?;
                    let steps = a.get(3)?.as_z()?;
                    let deny = names_of(a.get(4)?)?;
                    let mut is = InstructionSet::new();
                    is.load();
                    if name == "INTEGER.RAND" || name == "FLOAT.RAND" { warm_up(&mut st); }
                    let before = target_size(&st, &name)?;
                    (is.get_instruction(&name)?.execute)(&mut st, &ic);
                    let pushed = target_size(&st, &name)? > before;
                    let v = if pushed { pop_target(&mut st, &name, steps, &deny)? } else { Sx::L(vec![]) };
                    dets.push(Sx::L(vec![Sx::b(pushed), state_to_sx(&st)]));
                    draws.push(v);
                }
                _ => return None,
            }
        }
        Some(Sx::L(vec![all_same(dets), Sx::L(draws)]))
    };
    go().unwrap_or_else(Sx::bad)
}

fn target_size(st: &PushState, name: &str) -> Option<usize> {
    Some(match name {
        "BOOLEAN.RAND" => st.bool_stack.size(),
        "INTEGER.RAND" => st.int_stack.size(),
        "FLOAT.RAND" => st.float_stack.size(),
        "CODE.RAND" => st.code_stack.size(),
        "NAME.RAND" | "NAME.RANDBOUNDNAME" => st.name_stack.size(),
        "BOOLVECTOR.RAND" => st.bool_vector_stack.size(),
        "INTVECTOR.RAND" => st.int_vector_stack.size(),
        "FLOATVECTOR.RAND" => st.float_vector_stack.size(),
        _ => return None,
    })
}

/// removes the pushed value from its stack and returns it as (value ok)
fn pop_target(st: &mut PushState, name: &str, steps: i128, deny: &[String]) -> Option<Sx> {
    let one = Sx::Z(1);
    Some(match name {
        "BOOLEAN.RAND" => Sx::L(vec![Sx::b(st.bool_stack.pop()?), one]),
        "INTEGER.RAND" => Sx::L(vec![Sx::z(st.int_stack.pop()?), one]),
        "FLOAT.RAND" => Sx::L(vec![f32_sx(st.float_stack.pop()?), one]),
        "CODE.RAND" => {
            let it = st.code_stack.pop()?;
            Sx::L(vec![item_to_sx(&it), Sx::Z(exercise(&it, steps, deny))])
        }
        "NAME.RAND" | "NAME.RANDBOUNDNAME" => Sx::L(vec![Sx::str(&st.name_stack.pop()?), one]),
        "BOOLVECTOR.RAND" => Sx::L(vec![Sx::list(st.bool_vector_stack.pop()?.values.iter(), |b| Sx::b(*b)), one]),
        "INTVECTOR.RAND" => Sx::L(vec![Sx::list(st.int_vector_stack.pop()?.values.iter(), |z| Sx::z(*z)), one]),
        "FLOATVECTOR.RAND" => Sx::L(vec![Sx::list(st.float_vector_stack.pop()?.values.iter(), |f| f32_sx(*f)), one]),
        _ => return None,
    })
}

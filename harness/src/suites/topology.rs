//! Suite "topo": pushr::push::topology::Topology through its public API.
//! case: (profile libm op args...)  — see coq/theories/Suites/STopology.v
use crate::sx::{f32_sx, Sx};
use pushr::push::topology::Topology;

pub const SUITES: &[(&str, fn(&Sx) -> Sx)] = &[("topo", run)];

fn run(c: &Sx) -> Sx {
    go(c).unwrap_or_else(Sx::bad)
}

fn usizes(s: &Sx) -> Option<Vec<usize>> {
    s.as_l()?.iter().map(|x| x.as_usize()).collect()
}

fn go(c: &Sx) -> Option<Sx> {
    let c = c.as_l()?;
    let p = c.get(0)?.as_z()?;
    if p != 0 && p != 1 { return None; }
    c.get(1)?.as_l()?;
    let op = c.get(2)?.as_z()?;
    let args = &c[3..];
    match (op, args.len()) {
        (0, 3) => {
            let index = args[0].as_usize()?;
            let nedge = args[1].as_usize()?;
            let ndim = args[2].as_usize()?;
            let r = Topology::decompose_index(&index, &nedge, &ndim);
            Some(Sx::opt(r, |v| Sx::list(v, Sx::u)))
        }
        (1, 2) => {
            let i1 = usizes(&args[0])?;
            let i2 = usizes(&args[1])?;
            Some(Sx::opt(Topology::euclidean_distance(&i1, &i2), f32_sx))
        }
        (2, 4) => {
            let ntotal = args[0].as_usize()?;
            let ndim = args[1].as_usize()?;
            let index = args[2].as_usize()?;
            let radius = args[3].as_f32()?;
            let r = Topology::find_neighbors(&ntotal, &ndim, &index, &radius);
            Some(Sx::opt(r, |v| Sx::list(v.values, |x| Sx::z(x))))
        }
        (3, 2) => {
            // the integer-exactness facts about f32 assumed by the C20 theorems, both sides
            let a = args[0].as_usize()?;
            let b = args[1].as_usize()?;
            let sum = a.checked_add(b)?;
            let aa = a.checked_mul(a)?;
            let (fa, fb) = (a as f32, b as f32);
            let d = if a >= b { a - b } else { b - a };
            let dd = (d as u128) * (d as u128);
            Some(Sx::L(vec![
                f32_sx((fa - fb).powf(2.0)),                            // as the compiler builds the source expression
                f32_sx((fa - fb).powf(std::hint::black_box(2.0f32))),   // libm's powf
                f32_sx((fa - fb) * (fa - fb)),
                f32_sx(dd as f32),
                f32_sx(fa + fb),
                f32_sx(sum as f32),
                Sx::Z(match fa.partial_cmp(&fb) {
                    Some(std::cmp::Ordering::Less) => -1,
                    Some(std::cmp::Ordering::Equal) => 0,
                    Some(std::cmp::Ordering::Greater) => 1,
                    None => 2,
                }),
                Sx::b(fa.sqrt() <= fb.sqrt()),
                Sx::b(fa.sqrt() <= fb),
                f32_sx((aa as f32).sqrt()),
            ]))
        }
        (4, 5) | (5, 5) => {
            let ntotal = args[0].as_usize()?;
            let ndim = args[1].as_usize()?;
            let i = args[2].as_usize()?;
            let enc = |r: Option<pushr::push::vector::IntVector>| Sx::opt(r, |v| Sx::list(v.values, |x| Sx::z(x)));
            let (a, b) = if op == 4 {
                let j = args[3].as_usize()?;
                let r = args[4].as_f32()?;
                (Topology::find_neighbors(&ntotal, &ndim, &i, &r), Topology::find_neighbors(&ntotal, &ndim, &j, &r))
            } else {
                let r1 = args[3].as_f32()?;
                let r2 = args[4].as_f32()?;
                (Topology::find_neighbors(&ntotal, &ndim, &i, &r1), Topology::find_neighbors(&ntotal, &ndim, &i, &r2))
            };
            Some(Sx::L(vec![enc(a), enc(b)]))
        }
        _ => None,
    }
}

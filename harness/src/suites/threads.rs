//! C14 (determinism and isolation): the behaviour the model cannot exhibit is sampled here.
//!
//! Suite "thr.repeat": (profile libm state mode arg world (n m t) (other_state ...))
//!   The first six fields are a "run" case (suites/run.rs).  The same case is executed
//!     (a) n times in a row in this process,
//!     (b) once more after m unrelated runs: the other states (cycled), each followed by graph node
//!         creations (moves the process-wide NODE_COUNTER) and BOOLEAN.RAND / INTEGER.RAND steps
//!         (moves this thread's generator),
//!     (c) on t threads at once (std::thread, one PushState / InstructionSet per thread, released
//!         together by a barrier; every thread also creates nodes and draws random numbers first),
//!   and the list of DISTINCT results is returned; a result is the whole "run" answer
//!   `(0 (outcome state))`, or `(1)` when that execution panicked.  Expected: exactly one element.
//! Suite "thr.ids": (profile t k via) -> (pairwise_distinct each_thread_increasing how_many)
//!   t threads create k graph nodes each (via 0: Graph::add_node, via 1: GRAPH.NODE*ADD through
//!   PushInterpreter::step, the id read back from the INTEGER stack).
//! Suite "thr.cli": (profile libm text) -> (cli_exec cli_code cli_int lib_exec lib_code lib_int lib_outcome)
//!   runs the `pushr` binary (same profile as this harness binary) on the program text, takes the last
//!   `> EXEC  :` / `> CODE  :` / `> INT   :` block of its stdout, and prints the same three stacks after
//!   PushParser::parse_program + PushInterpreter::run in this process.
use crate::conv::{state_to_sx, sx_to_state_at};
use crate::sx::Sx;
use pushr::push::graph::Graph;
use pushr::push::instructions::InstructionSet;
use pushr::push::interpreter::{PushInterpreter, PushInterpreterState};
use pushr::push::item::Item;
use pushr::push::parser::PushParser;
use pushr::push::state::PushState;
use std::panic;
use std::sync::{Arc, Barrier};
use std::thread;

pub const SUITES: &[(&str, fn(&Sx) -> Sx)] = &[("thr.repeat", repeat), ("thr.ids", ids), ("thr.cli", cli)];

/// one execution of a "run" case on a state built in the calling thread; None = undecodable
fn exec_once(c: &[Sx]) -> Option<Sx> {
    let mut is = InstructionSet::new();
    is.load();
    exec_once_with(c, &mut is)
}

/// the same with an InstructionSet the caller keeps across executions (a host that evaluates many programs loads its
/// instruction set once: whatever an instruction closure remembers travels from one run to the next)
fn exec_once_with(c: &[Sx], is: &mut InstructionSet) -> Option<Sx> {
    let mode = c[3].as_z()?;
    let arg = c[4].as_z()?;
    let next_node = c[5].as_l().and_then(|w| w.get(0)).and_then(|z| z.as_z())?;
    // the cases of this suite fix no node id: the counter is left where the process has it
    if next_node != 1 { return None; }
    let mut st = sx_to_state_at(&c[2], 1).ok()?;
    let r = panic::catch_unwind(panic::AssertUnwindSafe(|| {
        if mode == 0 {
            let icache = is.cache();
            let mut fin = false;
            for _ in 0..arg {
                if PushInterpreter::step(&mut st, is, &icache) { fin = true; break; }
            }
            Sx::L(vec![Sx::b(fin), state_to_sx(&st)])
        } else {
            let o = match PushInterpreter::run(&mut st, is) {
                PushInterpreterState::NoErrors => 0,
                PushInterpreterState::StepLimitExceeded => 1,
                PushInterpreterState::TimeLimitExceeded => 2,
                PushInterpreterState::GrowthCapExceeded => 3,
            };
            Sx::L(vec![Sx::Z(o), state_to_sx(&st)])
        }
    }));
    Some(match r { Ok(v) => Sx::L(vec![Sx::Z(0), v]), Err(_) => Sx::L(vec![Sx::Z(1)]) })
}

/// moves the process-wide node counter and the calling thread's random number generator
fn perturb(k: usize) {
    let mut g = Graph::new();
    for i in 0..(1 + k % 7) { g.add_node(i as i32); }
    let mut st = PushState::new();
    let mut is = InstructionSet::new();
    is.load();
    let icache = is.cache();
    for name in ["INTEGER.RAND", "BOOLEAN.RAND", "FLOAT.RAND"].iter() {
        st.exec_stack.push(Item::instruction(name.to_string()));
    }
    let _ = panic::catch_unwind(panic::AssertUnwindSafe(|| {
        for _ in 0..3 { PushInterpreter::step(&mut st, &mut is, &icache); }
    }));
}

fn key(s: &Sx) -> String { let mut t = String::new(); s.print(&mut t); t }

fn repeat(c: &Sx) -> Sx {
    let go = || -> Option<Sx> {
        let c = c.as_l()?;
        if c.len() != 8 { return None; }
        let prm = c[6].zs()?;
        if prm.len() != 3 || prm.iter().any(|x| *x < 0 || *x > 100_000) { return None; }
        let (n, m, t) = (prm[0] as usize, prm[1] as usize, prm[2] as usize);
        if n + t == 0 { return None; }
        let others = c[7].as_l()?;
        let base: Vec<Sx> = c[..6].to_vec();
        let mut results: Vec<Sx> = Vec::new();
        // (a) n times in a row, (b) after m unrelated runs: all with ONE instruction set, loaded once
        let mut shared_is = InstructionSet::new();
        shared_is.load();
        for _ in 0..n { results.push(exec_once_with(&base, &mut shared_is)?); }
        // (b) after m unrelated runs
        if m > 0 {
            for j in 0..m {
                if !others.is_empty() {
                    let o = &others[j % others.len()];
                    let oc = vec![c[0].clone(), c[1].clone(), o.clone(), Sx::Z(1), Sx::Z(0), c[5].clone()];
                    exec_once_with(&oc, &mut shared_is)?;
                }
                perturb(j);
            }
            results.push(exec_once_with(&base, &mut shared_is)?);
        }
        // (c) t threads at once
        if t > 0 {
            let barrier = Arc::new(Barrier::new(t));
            let shared = Arc::new(base.clone());
            let mut hs = Vec::new();
            for j in 0..t {
                let b = barrier.clone();
                let cs = shared.clone();
                hs.push(thread::Builder::new().stack_size(64 << 20).spawn(move || {
                    perturb(j);
                    b.wait();
                    exec_once(&cs)
                }).ok()?);
            }
            for h in hs {
                match h.join() { Ok(Some(r)) => results.push(r), Ok(None) => return None, Err(_) => results.push(Sx::L(vec![Sx::Z(1)])) }
            }
        }
        let mut distinct: Vec<(String, Sx)> = Vec::new();
        for r in results {
            let k = key(&r);
            if !distinct.iter().any(|(d, _)| *d == k) { distinct.push((k, r)); }
        }
        distinct.sort_by(|a, b| a.0.cmp(&b.0));
        Some(Sx::L(distinct.into_iter().map(|(_, r)| r).collect()))
    };
    go().unwrap_or_else(Sx::bad)
}

fn ids(c: &Sx) -> Sx {
    let go = || -> Option<Sx> {
        let c = c.as_l()?;
        if c.len() != 4 { return None; }
        let t = c[1].as_usize()?;
        let k = c[2].as_usize()?;
        let via = c[3].as_z()?;
        if t > 4096 || k > 10_000_000 || !(0..=3).contains(&via) { return None; }
        // more than 64 threads run in waves of 64 (each wave starts together); thread numbers keep counting up across waves
        let mut joined: Vec<Vec<usize>> = Vec::new();
        let mut left = t;
        while left > 0 {
        let wave = left.min(64);
        left -= wave;
        let barrier = Arc::new(Barrier::new(wave));
        let mut hs = Vec::new();
        for _ in 0..wave {
            let b = barrier.clone();
            hs.push(thread::spawn(move || -> Vec<usize> {
                let mut out = Vec::with_capacity(k);
                if via == 0 {
                    let mut g = Graph::new();
                    b.wait();
                    for i in 0..k { out.push(g.add_node((i & 0xffff) as i32)); }
                } else if via == 3 {
                    // create, remove, create again, also on a clone: an id is never handed out twice, removed or not
                    let mut g = Graph::new();
                    b.wait();
                    for i in 0..k {
                        let id = g.add_node((i & 0xffff) as i32);
                        out.push(id);
                        if i % 2 == 0 {
                            let mut h = g.clone();
                            g.remove_node(id);
                            out.push(g.add_node(1));
                            h.remove_node(id);
                            out.push(h.add_node(2));
                        }
                    }
                } else if via == 2 {
                    // node creation interleaved with complete, unrelated top-level runs (fresh states, no GRAPH stack):
                    // "never handed out twice in a process" whatever else the process runs in between
                    let mut g = Graph::new();
                    let mut is = InstructionSet::new();
                    is.load();
                    b.wait();
                    for i in 0..k {
                        out.push(g.add_node((i & 0xffff) as i32));
                        if i % 3 == 0 {
                            let mut other = PushState::new();
                            PushParser::parse_program(&mut other, &is, "( 1 2 INTEGER.+ GRAPH.ADD 5 GRAPH.NODE*ADD )");
                            let _ = PushInterpreter::run(&mut other, &mut is);
                            if let Some(id) = other.int_stack.pop() { out.push(id as u32 as usize); }
                        }
                    }
                } else {
                    let mut st = PushState::new();
                    let mut is = InstructionSet::new();
                    is.load();
                    let icache = is.cache();
                    st.graph_stack.push(Graph::new());
                    b.wait();
                    for i in 0..k {
                        st.exec_stack.push(Item::instruction("GRAPH.NODE*ADD".to_string()));
                        st.exec_stack.push(Item::int((i & 0xffff) as i32));
                        PushInterpreter::step(&mut st, &mut is, &icache);
                        PushInterpreter::step(&mut st, &mut is, &icache);
                        // `graph.add_node(state) as i32`: ids stay far below 2^31 in these runs
                        match st.int_stack.pop() { Some(id) => out.push(id as u32 as usize), None => out.push(usize::MAX) }
                    }
                }
                out
            }));
        }
        for h in hs { joined.push(h.join().ok()?); }
        }
        let mut all: Vec<usize> = Vec::with_capacity(t * k);
        let mut increasing = true;
        for v in joined {
            if v.windows(2).any(|w| w[0] >= w[1]) { increasing = false; }
            all.extend(v);
        }
        let n = all.len();
        all.sort_unstable();
        let distinct = all.windows(2).all(|w| w[0] != w[1]) && !all.contains(&usize::MAX);
        Some(Sx::L(vec![Sx::b(distinct), Sx::b(increasing), Sx::u(n)]))
    };
    go().unwrap_or_else(Sx::bad)
}

/// the pushr CLI binary of the same profile as this binary: $PUSHR_CLI_DIR/{debug,release}/pushr,
/// default <target dir of this binary>/../../target-pushr
fn cli_binary() -> Option<std::path::PathBuf> {
    let prof = if cfg!(debug_assertions) { "debug" } else { "release" };
    let dir = match std::env::var("PUSHR_CLI_DIR") {
        Ok(d) => std::path::PathBuf::from(d),
        Err(_) => std::env::current_exe().ok()?.parent()?.parent()?.parent()?.join("target-pushr"),
    };
    let p = dir.join(prof).join("pushr");
    if p.is_file() { Some(p) } else { None }
}

fn last_block(stdout: &str) -> Option<(String, String, String)> {
    let (mut e, mut c, mut i) = (None, None, None);
    for line in stdout.lines() {
        if let Some(r) = line.strip_prefix("> EXEC  : ") { e = Some(r.to_string()); }
        else if line == "> EXEC  :" { e = Some(String::new()); }
        else if let Some(r) = line.strip_prefix("> CODE  : ") { c = Some(r.to_string()); }
        else if line == "> CODE  :" { c = Some(String::new()); }
        else if let Some(r) = line.strip_prefix("> INT   : ") { i = Some(r.to_string()); }
        else if line == "> INT   :" { i = Some(String::new()); }
    }
    Some((e?, c?, i?))
}

fn cli(c: &Sx) -> Sx {
    let go = || -> Option<Sx> {
        let c = c.as_l()?;
        if c.len() != 3 { return None; }
        c[1].as_l()?;
        let text = c[2].as_string()?;
        if text.contains('\n') || text.contains('\0') { return None; }
        let bin = match cli_binary() { Some(b) => b, None => { eprintln!("pushr CLI binary not built (bin/build-harness)"); std::process::exit(4) } };
        // the CLI loop has no step limit: a program that does not stop is cut off after 20 s and reported as a panic
        let tmp = std::env::temp_dir().join(format!("pushr_cli_{}_{:?}.out", std::process::id(), thread::current().id()));
        let f = std::fs::File::create(&tmp).ok()?;
        let mut child = std::process::Command::new(bin).arg(&text).stdin(std::process::Stdio::null())
            .stdout(std::process::Stdio::from(f)).stderr(std::process::Stdio::null()).spawn().ok()?;
        let t0 = std::time::Instant::now();
        let status = loop {
            match child.try_wait().ok()? {
                Some(s) => break s,
                None => {
                    if t0.elapsed().as_secs() >= 20 { let _ = child.kill(); let _ = child.wait(); let _ = std::fs::remove_file(&tmp); panic!("the CLI did not stop"); }
                    thread::sleep(std::time::Duration::from_millis(2));
                }
            }
        };
        let stdout = std::fs::read(&tmp).map(|b| String::from_utf8_lossy(&b).to_string()).unwrap_or_default();
        let _ = std::fs::remove_file(&tmp);
        if !status.success() { panic!("the CLI process failed"); }
        // println! prints "> EXEC  : " + text; an empty stack leaves the trailing blank
        let (ce, cc, ci) = last_block(&stdout)?;
        let mut st = PushState::new();
        let mut is = InstructionSet::new();
        is.load();
        PushParser::parse_program(&mut st, &is, &text);
        let o = match PushInterpreter::run(&mut st, &mut is) {
            PushInterpreterState::NoErrors => 0,
            PushInterpreterState::StepLimitExceeded => 1,
            PushInterpreterState::TimeLimitExceeded => 2,
            PushInterpreterState::GrowthCapExceeded => 3,
        };
        Some(Sx::L(vec![Sx::str(&ce), Sx::str(&cc), Sx::str(&ci),
                        Sx::str(&st.exec_stack.to_string()), Sx::str(&st.code_stack.to_string()), Sx::str(&st.int_stack.to_string()),
                        Sx::Z(o)]))
    };
    go().unwrap_or_else(Sx::bad)
}

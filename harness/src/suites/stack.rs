//! Suite "stack": a history of operations on PushStack<i32>.
use crate::sx::Sx;
use pushr::push::stack::PushStack;

pub const SUITES: &[(&str, fn(&Sx) -> Sx)] = &[("stack", run)];

fn run(c: &Sx) -> Sx {
    match go(c) { Some(v) => v, None => Sx::bad() }
}

fn zi(v: i128) -> Option<i32> { if v >= i32::MIN as i128 && v <= i32::MAX as i128 { Some(v as i32) } else { None } }

fn go(c: &Sx) -> Option<Sx> {
    let c = c.as_l()?;
    if c.len() != 3 { return None; }
    let init: Vec<i32> = c[1].zs()?.into_iter().map(zi).collect::<Option<_>>()?;
    let mut st: PushStack<i32> = PushStack::from_vec(init);
    let mut outs = Vec::new();
    for op in c[2].as_l()? {
        let op = op.as_l()?;
        let tag = op.get(0)?.as_z()?;
        let us = |k: usize| -> Option<usize> { op.get(k)?.as_usize() };
        let el = |k: usize| -> Option<i32> { op.get(k)?.as_i32() };
        let o = match tag {
            0 => Sx::u(st.size()),
            1 => {
                // the listing to_string prints, recovered through the public API
                let s = st.to_string();
                let toks: Vec<i128> = s.split_whitespace().map(|t| t.parse::<i128>().unwrap()).collect();
                Sx::list(toks, Sx::Z)
            }
            2 => Sx::b(st.last_eq(&el(1)?)),
            3 => Sx::opt(st.equal_at(us(1)?, &el(2)?), Sx::b),
            4 => Sx::opt(st.bottom_mut().map(|x| *x), |x| Sx::z(x)),
            5 => { st.flush(); Sx::unit() }
            6 => match st.replace(us(1)?, el(2)?) { Ok(()) => Sx::L(vec![]), Err(d) => Sx::L(vec![Sx::u(d)]) },
            7 => { st.remove(us(1)?); Sx::unit() }
            8 => { st.reverse(); Sx::unit() }
            9 => {
                let i = us(1)?;
                let a = st.get(i).map(|x| *x);
                let b = st.get_mut(i).map(|x| *x);
                if a != b { Sx::L(vec![Sx::Z(-1), Sx::Z(-1)]) } else { Sx::opt(a, |x| Sx::z(x)) }
            }
            10 => { st.push(el(1)?); Sx::unit() }
            11 => { st.push_front(el(1)?); Sx::unit() }
            12 => { st.yank(us(1)?); Sx::unit() }
            13 => { st.shove(us(1)?); Sx::unit() }
            14 => { st.swap(us(1)?, us(2)?); Sx::unit() }
            15 => Sx::opt(st.pop_front(), |x| Sx::z(x)),
            16 => Sx::opt(st.pop(), |x| Sx::z(x)),
            17 => Sx::opt(st.pop_vec(us(1)?), |v| Sx::list(v, |x| Sx::z(x))),
            18 => Sx::opt(st.copy(us(1)?), |x| Sx::z(x)),
            19 => Sx::opt(st.copy_vec(us(1)?), |v| Sx::list(v, |x| Sx::z(x))),
            20 => {
                let l: Vec<i32> = op.get(1)?.zs()?.into_iter().map(zi).collect::<Option<_>>()?;
                st.push_vec(l);
                Sx::unit()
            }
            _ => return None,
        };
        outs.push(o);
    }
    // final contents, top first, through copy_vec (last element of the returned vector is the top)
    let mut fin = st.copy_vec(st.size())?;
    fin.reverse();
    Some(Sx::L(vec![Sx::list(fin, |x| Sx::z(x)), Sx::L(outs)]))
}

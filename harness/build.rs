// Generates the suite table from the files present in src/suites/, so adding a
// suite never touches a shared file.
use std::{env, fs, path::Path};
fn main() {
    let dir = Path::new("src/suites");
    let mut names: Vec<String> = fs::read_dir(dir)
        .unwrap()
        .filter_map(|e| {
            let n = e.unwrap().file_name().into_string().unwrap();
            if n.ends_with(".rs") && n != "mod.rs" { Some(n[..n.len() - 3].to_string()) } else { None }
        })
        .collect();
    names.sort();
    let mut out = String::new();
    for n in &names {
        out.push_str(&format!("#[path = \"{}/src/suites/{}.rs\"] pub mod {};\n", env::var("CARGO_MANIFEST_DIR").unwrap(), n, n));
    }
    out.push_str("pub fn table() -> Vec<(&'static str, fn(&crate::sx::Sx) -> crate::sx::Sx)> {\n let mut t: Vec<(&'static str, fn(&crate::sx::Sx) -> crate::sx::Sx)> = Vec::new();\n");
    for n in &names {
        out.push_str(&format!(" t.extend_from_slice({}::SUITES);\n", n));
    }
    out.push_str(" t\n}\n");
    let dest = Path::new(&env::var("OUT_DIR").unwrap()).join("suites_gen.rs");
    fs::write(dest, out).unwrap();
    println!("cargo:rerun-if-changed=src/suites");
}

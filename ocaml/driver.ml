(* Generic driver for the extracted model: reads "<suite> <sx>" lines, applies
   the suite's extracted function, prints one result sx per line.  The only
   hand-written OCaml in the trusted base: sx parsing/printing and the
   conversion between decimal text and Coq's binary integers. *)
module M = Model

let rec pos_of_int n =
  if n = 1 then M.XH
  else if n land 1 = 0 then M.XO (pos_of_int (n lsr 1))
  else M.XI (pos_of_int (n lsr 1))

let z_of_int n =
  if n = 0 then M.Z0 else if n > 0 then M.Zpos (pos_of_int n) else M.Zneg (pos_of_int (-n))

let chunk = 1_000_000_000_000_000 (* 10^15 *)
let zchunk = z_of_int chunk

(* decimal text (optional leading '-') -> Z, any size *)
let z_of_string s =
  let neg = String.length s > 0 && s.[0] = '-' in
  let digits = if neg then String.sub s 1 (String.length s - 1) else s in
  if digits = "" then failwith ("bad integer: " ^ s);
  String.iter (fun c -> if c < '0' || c > '9' then failwith ("bad integer: " ^ s)) digits;
  let n = String.length digits in
  let rec go acc i =
    if i >= n then acc
    else
      let l = min 15 (n - i) in
      let part = int_of_string (String.sub digits i l) in
      let mult = z_of_int (int_of_float (10. ** float_of_int l)) in
      go (M.Z.add (M.Z.mul acc mult) (z_of_int part)) (i + l)
  in
  let v = go M.Z0 0 in
  if neg then M.Z.opp v else v

let rec int_of_pos_opt p bits =
  if bits > 60 then None
  else match p with
    | M.XH -> Some 1
    | M.XO q -> (match int_of_pos_opt q (bits + 1) with Some v -> Some (2 * v) | None -> None)
    | M.XI q -> (match int_of_pos_opt q (bits + 1) with Some v -> Some (2 * v + 1) | None -> None)

let rec string_of_nonneg z =
  match z with
  | M.Z0 -> "0"
  | M.Zneg _ -> assert false
  | M.Zpos p ->
    (match int_of_pos_opt p 0 with
     | Some v -> string_of_int v
     | None ->
       let (q, r) = M.Z.div_eucl z zchunk in
       let rs = string_of_nonneg r in
       string_of_nonneg q ^ String.make (15 - String.length rs) '0' ^ rs)

let string_of_z z =
  match z with
  | M.Zneg p -> "-" ^ string_of_nonneg (M.Zpos p)
  | _ -> string_of_nonneg z

let rec print_sx buf s =
  match s with
  | M.SZ z -> Buffer.add_string buf (string_of_z z)
  | M.SL l ->
    Buffer.add_char buf '(';
    List.iteri (fun i x -> if i > 0 then Buffer.add_char buf ' '; print_sx buf x) l;
    Buffer.add_char buf ')'

(* recursive-descent parser over a string *)
let parse_sx (s : string) (start : int) : M.sx =
  let n = String.length s in
  let i = ref start in
  let skip () = while !i < n && (s.[!i] = ' ' || s.[!i] = '\t') do incr i done in
  let rec value () =
    skip ();
    if !i >= n then failwith "unexpected end";
    if s.[!i] = '(' then begin
      incr i;
      let items = ref [] in
      let fin = ref false in
      while not !fin do
        skip ();
        if !i >= n then failwith "unclosed list";
        if s.[!i] = ')' then (incr i; fin := true)
        else items := value () :: !items
      done;
      M.SL (List.rev !items)
    end else begin
      let j = !i in
      while !i < n && s.[!i] <> ' ' && s.[!i] <> '(' && s.[!i] <> ')' do incr i done;
      M.SZ (z_of_string (String.sub s j (!i - j)))
    end
  in
  let v = value () in
  skip ();
  if !i <> n then failwith "trailing input";
  v

let () =
  let buf = Buffer.create 65536 in
  (try
     while true do
       let line = input_line stdin in
       if line <> "" && line.[0] <> '#' then begin
         let sp = try String.index line ' ' with Not_found -> failwith ("bad case line: " ^ line) in
         let suite = String.sub line 0 sp in
         let f = try List.assoc suite Dispatch.table
           with Not_found -> failwith ("unknown suite: " ^ suite) in
         let input = parse_sx line (sp + 1) in
         Buffer.clear buf;
         print_sx buf (f input);
         print_endline (Buffer.contents buf)
       end
     done
   with End_of_file -> ())
